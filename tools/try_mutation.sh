#!/bin/sh
# usage: try_mutation.sh <patch> <check id> [more ids...]  -- applies the patch to /repo, runs the quick checks, reverts
P="$1"; shift
cd /repo || exit 2
git apply --check "$P" || { echo "patch does not apply"; exit 2; }
git apply "$P"
cd /verif
for id in "$@"; do
  echo "== $id with $(basename $(dirname $P))/$(basename $P)"
  timeout 3000 ./check $id 2>&1 | grep -E "VIOLATION|KNOWN-FINDING|done:|MACHINERY" | head -4
done
cd /repo && git checkout -- . && git status --short | grep -v '^??'
rm -f /verif/replays/*
