#!/bin/sh
# usage: try_seeded.sh <patch file> <ID> [<ID> ...]
# Applies a seeded change to a scratch worktree of /repo's HEAD (never to /repo itself), runs the quick
# checks of the given properties against it (VERIF_REPO) with evidence/replays redirected (VERIF_OUT),
# prints one line per check, and removes the worktree again.
P="$(realpath "$1")"; shift
WT=$(mktemp -d /tmp/seedwt-XXXXXX); OUT=$(mktemp -d /tmp/seedout-XXXXXX)
rmdir "$WT"
git -C /repo worktree add -q --detach "$WT" HEAD || exit 2
( cd "$WT" && git apply "$P" ) || { echo "APPLY-FAILED $P"; git -C /repo worktree remove --force "$WT"; exit 2; }
cd "$(dirname "$0")/.."
for id in "$@"; do
  VERIF_REPO="$WT" VERIF_OUT="$OUT" timeout 3600 ./check "$id" --tier ${TIER:-quick} > "$OUT/$id.log" 2>&1
  rc=$?
  nv=$(grep -c '^VIOLATION' "$OUT/$id.log")
  echo "$(basename "$(dirname "$P")")/$(basename "$P") $id exit=$rc violations=$nv $(grep -m1 '^VIOLATION' "$OUT/$id.log" | cut -c1-220)"
  if [ "$rc" != 0 ] && [ "$rc" != 1 ]; then echo "--- tail of $id log (exit $rc)"; tail -25 "$OUT/$id.log" | cut -c1-300; echo "---"; fi
done
git -C /repo worktree remove --force "$WT"
rm -rf "$OUT"
