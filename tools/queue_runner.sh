#!/bin/sh
# Runs the command lines appended to a queue file one after the other (used to serialise long runs).
Q="${1:-/verif/.cache/tmp/seedqueue}"; LOG="${2:-/verif/.cache/tmp/seedq.log}"
touch "$Q"; n=0
while true; do
  total=$(wc -l < "$Q")
  if [ "$n" -lt "$total" ]; then
    n=$((n+1)); line=$(sed -n "${n}p" "$Q")
    [ "$line" = STOP ] && exit 0
    echo "## $(date +%T) $line" >> "$LOG"
    sh -c "$line" >> "$LOG" 2>&1
  else
    sleep 15
  fi
done
