#!/bin/sh
# usage: seed_sweep.sh <seed> [ids...]  - runs the quick checks with VERIF_SEED=<seed>, evidence/replays redirected
S="$1"; shift
IDS="${*:-C01 C02 C03 C04 C05 C06 C07 C08 C09 C10 C11 C12 C13 C14 C15 C16 C17 C18 C19 C20}"
OUT=/tmp/sweep-$S; mkdir -p $OUT
cd "$(dirname "$0")/.."
for id in $IDS; do
  t0=$(date +%s)
  VERIF_SEED=$S VERIF_OUT=$OUT timeout 3600 ./check $id --tier quick > $OUT/$id.log 2>&1
  rc=$?
  echo "seed=$S $id exit=$rc $(( $(date +%s) - t0 ))s viol=$(grep -c '^VIOLATION' $OUT/$id.log) $(grep -m1 -E '^VIOLATION|MACHINERY' $OUT/$id.log | cut -c1-200)"
done
