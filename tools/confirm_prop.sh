#!/bin/sh
# usage: confirm_prop.sh <PID> [worktree prefix]  - confirms mutA then mutB of one property, ONE AFTER THE OTHER
# (both use the same scratch worktree: never run them concurrently)
P="$1"; W="${2:-wt}"
( cd /tmp/$W-$P && git checkout -q -- . && /venv/bin/python setup.py build_ext --inplace > build_confirm.log 2>&1 )
rm -f /tmp/$W-$P/out/confirmA.txt /tmp/$W-$P/out/confirmB.txt
/verif/tools/confirm_one.sh "$P" A "$W"
/verif/tools/confirm_one.sh "$P" B "$W"
