"""Compare a junit xml of /repo's test suite with BASELINE.json's stable_pass list."""
import json
import sys
import xml.etree.ElementTree as ET

base = json.load(open("/root/.vp/BASELINE.json"))
stable = set(base["stable_pass"])
t = ET.parse(sys.argv[1])
res = {}
for tc in t.iter("testcase"):
    name = "%s::%s" % (tc.get("classname"), tc.get("name"))
    bad = any(ch.tag in ("failure", "error") for ch in tc)
    skipped = any(ch.tag == "skipped" for ch in tc)
    res[name] = "fail" if bad else ("skip" if skipped else "pass")
missing = sorted(n for n in stable if res.get(n) != "pass")
newpass = sorted(n for n, v in res.items() if v == "pass" and n not in stable)
print("stable_pass: %d, of which passing now: %d" % (len(stable), len(stable) - len(missing)))
for n in missing:
    print("  NOT PASSING:", n, res.get(n))
print("newly passing (not in baseline):", len(newpass))
sys.exit(1 if missing else 0)
