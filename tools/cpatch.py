"""Helper used while preparing fix: commits in /repo: apply one textual replacement to every
function of a C file whose name matches a regex (functions are delimited by lines starting with a
return type and ending in '{' at column 0 ... closing '}' at column 0)."""
import re
import sys


def split_functions(text):
    """Yield (start, end, name) of top-level function definitions."""
    out = []
    for m in re.finditer(r"^(?:seq_t|idx_t|void|bool|int|DTWWps|DTWSettings|DTWBlock)\s+(\w+)\s*\(", text, re.M):
        # find the opening brace of the body
        i = text.find("{", m.end())
        semi = text.find(";", m.end())
        if i < 0 or (0 <= semi < i):
            continue
        j = text.find("\n}\n", i)
        if j < 0:
            continue
        out.append((m.start(), j + 3, m.group(1)))
    return out


def patch(path, name_re, old, new, expect=None, count_per_fn=1):
    text = open(path).read()
    fns = [f for f in split_functions(text) if re.fullmatch(name_re, f[2])]
    n = 0
    for (a, b, name) in reversed(fns):
        body = text[a:b]
        c = body.count(old)
        if c == 0:
            continue
        if count_per_fn is not None and c != count_per_fn:
            raise SystemExit("%s: %d occurrences in %s" % (path, c, name))
        text = text[:a] + body.replace(old, new) + text[b:]
        n += 1
        print("patched", name)
    if expect is not None and n != expect:
        raise SystemExit("%s: patched %d functions, expected %d" % (path, n, expect))
    open(path, "w").write(text)


def patch_plain(path, old, new, expect=1):
    text = open(path).read()
    c = text.count(old)
    if c != expect:
        raise SystemExit("%s: %d occurrences, expected %d" % (path, c, expect))
    open(path, "w").write(text.replace(old, new))
    print("patched", path, c)
