#!/bin/sh
# usage: confirm_one.sh <PID> <A|B> [worktree prefix]   -> /tmp/<prefix>-<PID>/out/confirm<A|B>.txt
P="$1"; M="$2"; W="${3:-wt}"
[ -f /tmp/$W-$P/out/mut$M.diff ] || exit 0
/verif/tools/confirm_mutation.sh /tmp/$W-$P /tmp/$W-$P/out/mut$M.diff /tmp/$W-$P/out/demo$M.py /tmp/$W-$P/out/confirm$M.txt
