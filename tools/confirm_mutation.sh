#!/bin/sh
# usage: confirm_mutation.sh <worktree> <patch file> <demo file> <out file>
# Confirms in the scratch worktree: demo fails with the patch, the test suite still passes with it,
# demo passes without it.
WT="$1"; P="$2"; D="$3"; OUT="$4"
cd "$WT" || exit 2
git checkout -q -- . 
git apply "$P" || { echo "APPLY-FAILED" > "$OUT"; exit 2; }
NEEDS_BUILD=$(git diff --name-only | grep -E '\.(c|h|pyx|pxd)$' | head -1)
if [ -n "$NEEDS_BUILD" ] || [ ! -f src/dtaidistance/dtw_cc.cpython-312-x86_64-linux-gnu.so ]; then
  /venv/bin/python setup.py build_ext --inplace > build_confirm.log 2>&1 || { echo "BUILD-FAILED" > "$OUT"; git checkout -q -- .; exit 2; }
fi
PYTHONPATH="$WT/src" timeout 1800 /venv/bin/python "$D" > demo_mut.log 2>&1; DM=$?
PYTHONPATH="$WT/src" timeout 3000 /venv/bin/python -m pytest tests -q -p no:cacheprovider --timeout=900 > tests_confirm.log 2>&1
TS=$(tail -1 tests_confirm.log)
git checkout -q -- .
if [ -n "$NEEDS_BUILD" ]; then
  /venv/bin/python setup.py build_ext --inplace > build_confirm.log 2>&1
fi
PYTHONPATH="$WT/src" timeout 1800 /venv/bin/python "$D" > demo_clean.log 2>&1; DC=$?
echo "demo_with_mutation_exit=$DM demo_clean_exit=$DC tests_with_mutation='$TS'" > "$OUT"
cat "$OUT"
