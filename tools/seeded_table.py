"""Rebuilds seeded/README.md's table and the caught_by_quick field of each meta.json from the logs of
tools/try_seeded.sh runs (files given on the command line, or .cache/tmp/seeded*.log + seedq.log)."""
import glob
import json
import os
import re
import sys

V = os.path.dirname(os.path.dirname(os.path.abspath(__file__)))
logs = sys.argv[1:] or [p for p in sorted(glob.glob(os.path.join(V, ".cache/tmp/seeded*.log"))) if "extra" not in p] + \
    [os.path.join(V, ".cache/tmp/seedq.log"), os.path.join(V, ".cache/tmp/tryq.log"),
     os.path.join(V, ".cache/tmp/tryq7.log"), os.path.join(V, ".cache/tmp/seeded_extra.log"),
     os.path.join(V, ".cache/tmp/benign_rerun.log")]          # re-runs after a check was strengthened come last
res = {}          # seeded id -> {check id: (exit, nviol)}
for lg in logs:
    if not os.path.exists(lg):
        continue
    cur = None
    cursid = None
    for line in open(lg):
        m = re.match(r"## \S+ /verif/tools/confirm_and_try.sh (C\d+)", line)
        if m:
            cur = m.group(1)
            continue
        m = re.match(r"## seeded (C\d+-[AB]\d?)", line)
        if m:
            cursid = m.group(1)
            continue
        if line.startswith("## benign"):
            cursid = "benign"
            continue
        m = re.match(r"(\S+)/(\S+\.diff) (C\d+) exit=(\d+) violations=(\d+)", line)
        if not m:
            continue
        d, f, chk, rc, nv = m.groups()
        if d == "out":
            if cursid == "benign":
                continue
            if cursid is not None:
                sid = cursid
            elif cur is not None:
                sid = "%s-%s" % (cur, "A" if "mutA" in f else "B")
            else:
                continue
        else:
            sid = d
        if rc in ("0", "1"):
            res.setdefault(sid, {})[chk] = (int(rc), int(nv))
rows = []
for d in sorted(glob.glob(os.path.join(V, "seeded", "C*-*"))):
    sid = os.path.basename(d)
    mp = os.path.join(d, "meta.json")
    meta = json.load(open(mp))
    r = res.get(sid, {})
    caught = sorted(c for c, (rc, nv) in r.items() if rc == 1)
    missed = sorted(c for c, (rc, nv) in r.items() if rc == 0)
    meta["caught_by_quick"] = caught
    meta["not_flagged_by"] = missed
    json.dump(meta, open(mp, "w"), indent=1)
    rows.append("| %s | %s | %s | %s | %s |" % (sid, meta["property"], meta["change"].replace("|", "\\|"),
                                               meta["needs_to_manifest"].replace("|", "\\|"),
                                               ", ".join("%s (%d)" % (c, r[c][1]) for c in caught)
                                               or ("- (outside the property as stated, see meta.json)" if meta.get("note") else "-")))
# ---- behaviour-preserving changes: every check must stay quiet
bres = {}
for lg in logs:
    if not os.path.exists(lg):
        continue
    cur = None
    for line in open(lg):
        m = re.match(r"## benign (B\d-\d)", line)
        if m:
            cur = m.group(1)
            continue
        if line.startswith("## seeded"):
            cur = None
            continue
        m = re.match(r"out/benign\d\.diff (C\d+) exit=(\d+) violations=(\d+)", line)
        if m and cur:
            bres.setdefault(cur, {})[m.group(1)] = int(m.group(2))
brows = []
for d in sorted(glob.glob(os.path.join(V, "seeded", "benign", "B*"))):
    bid = os.path.basename(d)
    mp = os.path.join(d, "meta.json")
    meta = json.load(open(mp))
    r = bres.get(bid, {})
    meta["quick_checks_exit_0"] = sorted(c for c, rc in r.items() if rc == 0)
    meta["quick_checks_alarmed"] = sorted(c for c, rc in r.items() if rc != 0)
    json.dump(meta, open(mp, "w"), indent=1)
    brows.append("| %s | %s | %s | %s | %s |" % (bid, meta["kind"], meta["change"].replace("|", "\\|"),
                                             ", ".join(meta["quick_checks_exit_0"]) or "-",
                                             ", ".join(meta["quick_checks_alarmed"]) or "none"))
readme = os.path.join(V, "seeded", "README.md")
text = open(readme).read()
head = text[:text.index("| id | property |")]
table = "| id | property | change | needs to manifest | caught by quick checks (violations reported, capped at 20) |\n|---|---|---|---|---|\n" + "\n".join(rows) + "\n"
btable = ("\n## Behaviour-preserving changes (`seeded/benign/<id>/`)\n\nKinds: a refactoring, b performance, c different but "
          "equally valid choice (tie-breaking, schedule), d neutral addition.\n\n"
          "| id | kind | change | quick checks that exit 0 | alarms |\n|---|---|---|---|---|\n" + "\n".join(brows) + "\n")
open(readme, "w").write(head + table + btable)
print(table)
