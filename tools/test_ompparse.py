"""Self-test of harness/ompparse.py on hand-written variants of a parallel loop (benign refactors must
not be classified harmful; a per-iteration scalar missing from private(...) must be)."""
import os
import sys
import tempfile

sys.path.insert(0, os.path.dirname(os.path.dirname(os.path.abspath(__file__))))
from harness import ompparse

HEAD = "idx_t f(seq_t **ptrs, idx_t *output, DTWBlock *block) {\n    idx_t r, c, r_i, c_i, rl; int failed = 0; idx_t cnt = 0; idx_t n;\n"
CASES = {
    "original": ("#pragma omp parallel for private(r_i, c_i, r, c) schedule(guided)\n"
                 "for (r_i=0; r_i < n; r_i++) { r = block->rb + r_i; c_i = 0; for (c = 0; c < n; c++) {"
                 " double value = g(r, c); output[r_i + c_i] = value; c_i++; } }", [], []),
    "declared-in-body": ("#pragma omp parallel for schedule(static)\n"
                         "for (idx_t r_i2=0; r_i2 < n; r_i2++) { idx_t r2 = block->rb + r_i2; idx_t ci2 = 0, k = 1;\n"
                         " for (idx_t c2 = 0; c2 < n; c2++) { const double value = g(r2, c2); output[r2 + ci2] = value; ci2++; k += 1; } }", [], []),
    "continued-pragma": ("#pragma omp parallel for \\\n    private(r_i, c_i, \\\n    r, c) schedule(dynamic, 1)\n"
                         "for (r_i=0; r_i < n; r_i++) { r = r_i; c_i = 0; c = r; output[r] = c + c_i; }", [], []),
    "write-only-flag": ("#pragma omp parallel for private(r_i, r)\n"
                        "for (r_i=0; r_i < n; r_i++) { r = r_i; if (g(r) < 0) { failed = 1; } output[r] = r; }", [], ["failed"]),
    "invariant-cache": ("#pragma omp parallel for private(r_i, r)\n"
                        "for (r_i=0; r_i < n; r_i++) { rl = block->ce - block->cb; r = r_i; output[r * rl] = r; }", [], ["rl"]),
    "reduction": ("#pragma omp parallel for private(r_i) reduction(+:cnt)\n"
                  "for (r_i=0; r_i < n; r_i++) { cnt += r_i; output[r_i] = 0; }", [], []),
    "shared-row-offset": ("#pragma omp parallel for private(r_i, c_i, r, c)\n"
                          "for (r_i=0; r_i < n; r_i++) { rl = n * r_i; c_i = 0; for (c = 0; c < n; c++) { output[rl + c_i] = g(r_i, c); c_i++; } }", ["rl"], []),
    "shared-counter": ("#pragma omp parallel for private(r_i)\n"
                       "for (r_i=0; r_i < n; r_i++) { output[cnt] = g(r_i); cnt++; }", ["cnt"], []),
    "comment-mentions-assignment": ("#pragma omp parallel for private(r_i, r)\n"
                                    "for (r_i=0; r_i < n; r_i++) { /* rl = n * r_i; */ r = r_i; // cnt = r\n output[r] = rl; }", [], []),
}
bad = 0
for name, (src, harmful, benign) in CASES.items():
    with tempfile.NamedTemporaryFile("w", suffix=".c", delete=False) as fh:
        fh.write(HEAD + src + "\n return 0; }\n")
    try:
        res = ompparse.parse(fh.name)
    finally:
        os.unlink(fh.name)
    ok = len(res) == 1 and res[0]["harmful"] == harmful and res[0]["benign"] == benign
    print("%-28s %s %s" % (name, "ok" if ok else "FAIL", "" if ok else res))
    bad += not ok
sys.exit(1 if bad else 0)
