#!/bin/sh
# usage: confirm_and_try.sh <PID> <ids to check...>   (sub-agent output in /tmp/wt-<PID>/out)
# 1. confirms mutA / mutB in the agent's worktree (demo fails with / passes without, tests pass with)
# 2. runs the given quick checks against a scratch tree with each patch (tools/try_seeded.sh)
P="$1"; shift
V=/verif
for m in A B; do
  [ -f /tmp/wt-$P/out/mut$m.diff ] || continue
  $V/tools/confirm_mutation.sh /tmp/wt-$P /tmp/wt-$P/out/mut$m.diff /tmp/wt-$P/out/demo$m.py /tmp/wt-$P/out/confirm$m.txt
  $V/tools/try_seeded.sh /tmp/wt-$P/out/mut$m.diff "$@"
done
