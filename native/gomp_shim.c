/*
 * Deterministic stand-in for libgomp (C07, binding 3).
 *
 * The repository's dd_dtw_openmp.c is compiled with -fopenmp but linked against this file instead of
 * libgomp.  gcc emits, for "#pragma omp parallel for schedule(...)", calls to GOMP_parallel and
 * GOMP_loop_<kind>_start / _next / GOMP_loop_end_nowait (or the combined GOMP_parallel_loop_<kind>); for
 * schedule(static) it emits only GOMP_parallel and partitions the range itself with
 * omp_get_num_threads / omp_get_thread_num.  The shim runs the REAL outlined loop bodies on T logical
 * threads (pthreads) but lets exactly one of them run at a time.
 *
 * Two kinds of script:
 *
 *  mode 0 (iteration-granular):  script[k] = (thread, iteration), k = 0..n-1: the iterations are handed out one
 *      by one in this order to these threads; a thread runs its iteration to the end before the next entry
 *      is served.  Any static / dynamic / guided schedule with any chunk size is such a script.
 *
 *  mode 1 (cell-granular):  order[] is the order in which iterations are handed to whichever thread asks
 *      next, and choice[] decides at every SCHEDULING POINT which of the live threads runs next
 *      (choice c picks the (c mod #live)-th live thread).  Scheduling points are: a request for the next
 *      iteration, a thread leaving the region, and shim_yield(), which the build inserts before and after
 *      every call of a distance kernel inside dd_dtw_openmp.c (native/shim_wrap.h).  A scalar that is shared
 *      between the threads by mistake (missing from private(...)) and written before / read after a kernel
 *      call is then overwritten by another thread deterministically.  When choice[] is used up the lowest
 *      live thread runs to completion.
 *
 * Control functions (called through ctypes): shim_set_script, shim_set_plan, shim_last_error.
 * Errors: 1 = not every iteration of the loop was executed, 3 = internal (baton).
 */
#include <pthread.h>
#include <stdbool.h>
#include <stdlib.h>
#include <string.h>

#define MAX_SCRIPT 8192
#define MAX_THREADS 64

static int g_mode = 0;
static int g_nthreads = 1;
static int g_error = 0;

/* mode 0 */
static long g_len = 0;
static int g_thread[MAX_SCRIPT];
static long g_iter[MAX_SCRIPT];
static long g_k = 0;             /* next script entry to hand out */
static int g_running = -1;

/* mode 1 */
static long g_norder = 0, g_oi = 0;
static long g_order[MAX_SCRIPT];
static long g_nchoice = 0, g_ci = 0;
static int g_choice[MAX_SCRIPT];
static int g_current = -1;       /* thread holding the baton */

/* state of the running parallel region */
static pthread_mutex_t g_mu = PTHREAD_MUTEX_INITIALIZER;
static pthread_cond_t g_cv = PTHREAD_COND_INITIALIZER;
static long g_start = 0, g_end = 0, g_incr = 1;
static bool g_loop_open = false;
static bool g_loop_used = false;  /* a work-sharing runtime call was made (not schedule(static)) */
static bool g_in_parallel = false;
static int g_done[MAX_THREADS];  /* thread has left the region (mode 1) / loop (mode 0) */
static __thread int t_id = 0;

/* which iterations of the open loop have been handed out; the scripts are written for the loop over the
   rows of a block, but the shim serves whatever iteration space the compiled loop really has: entries that
   do not exist (or were served already) are skipped, iterations no entry names are served in ascending
   order once the script is used up */
static unsigned char *g_handed = NULL;
static long g_niter = 0, g_nhanded = 0;

static long iter_count(long start, long end, long incr) {
    if (incr > 0) return end > start ? (end - start + incr - 1) / incr : 0;
    if (incr < 0) return start > end ? (start - end + (-incr) - 1) / (-incr) : 0;
    return 0;
}

/* caller holds g_mu */
static bool valid_unhanded(long it) { return it >= 0 && it < g_niter && !g_handed[it]; }
static long lowest_unhanded(void) {
    for (long i = 0; i < g_niter; i++) if (!g_handed[i]) return i;
    return -1;
}
static void hand(long it, long *istart, long *iend) {
    g_handed[it] = 1; g_nhanded++;
    *istart = g_start + it * g_incr;
    *iend = *istart + g_incr;
}

void shim_set_script(int nthreads, long len, const int *threads, const long *iters) {
    g_mode = 0;
    g_nthreads = nthreads < 1 ? 1 : (nthreads > MAX_THREADS ? MAX_THREADS : nthreads);
    g_len = len > MAX_SCRIPT ? MAX_SCRIPT : len;
    memcpy(g_thread, threads, sizeof(int) * g_len);
    memcpy(g_iter, iters, sizeof(long) * g_len);
    g_error = 0;
}

void shim_set_plan(int nthreads, long norder, const long *order, long nchoice, const int *choice) {
    g_mode = 1;
    g_nthreads = nthreads < 1 ? 1 : (nthreads > MAX_THREADS ? MAX_THREADS : nthreads);
    g_norder = norder > MAX_SCRIPT ? MAX_SCRIPT : norder;
    g_nchoice = nchoice > MAX_SCRIPT ? MAX_SCRIPT : nchoice;
    memcpy(g_order, order, sizeof(long) * g_norder);
    memcpy(g_choice, choice, sizeof(int) * g_nchoice);
    g_error = 0;
}

int shim_last_error(void) { return g_error; }
long shim_choices_used(void) { return g_ci; }

int omp_get_thread_num(void) { return t_id; }
int omp_get_num_threads(void) { return g_in_parallel ? g_nthreads : 1; }
int omp_get_max_threads(void) { return g_nthreads; }
void omp_set_num_threads(int n) { (void)n; }
int omp_in_parallel(void) { return g_in_parallel ? 1 : 0; }

/* ---------------------------------------------------------------- mode 1: baton passing */

/* caller holds g_mu */
static void pass_baton_locked(void) {
    int live[MAX_THREADS], n = 0;
    for (int i = 0; i < g_nthreads; i++) if (!g_done[i]) live[n++] = i;
    if (n == 0) { g_current = -1; pthread_cond_broadcast(&g_cv); return; }
    int pick;
    if (g_ci < g_nchoice) {
        int c = g_choice[g_ci++];
        if (c < 0) c = -c;
        pick = live[c % n];
    } else {
        pick = live[0];
    }
    g_current = pick;
    pthread_cond_broadcast(&g_cv);
}

static void sched_point(void) {
    pthread_mutex_lock(&g_mu);
    pass_baton_locked();
    while (g_current != t_id) pthread_cond_wait(&g_cv, &g_mu);
    pthread_mutex_unlock(&g_mu);
}

void shim_yield(void) {
    if (g_mode == 1 && g_in_parallel) sched_point();
}

double shim_after(double v) {
    shim_yield();
    return v;
}

static bool take_mode1(long *istart, long *iend) {
    sched_point();
    pthread_mutex_lock(&g_mu);
    bool ok = false;
    long it = -1;
    while (g_oi < g_norder) {
        long cand = g_order[g_oi++];
        if (valid_unhanded(cand)) { it = cand; break; }
    }
    if (it < 0) it = lowest_unhanded();
    if (it >= 0) { hand(it, istart, iend); ok = true; }
    pthread_mutex_unlock(&g_mu);
    return ok;
}

/* ---------------------------------------------------------------- mode 0: (thread, iteration) script */

static bool my_turn(void) {
    if (g_k >= g_len) return true;
    return g_thread[g_k] == t_id;
}

static bool take(long *istart, long *iend) {
    pthread_mutex_lock(&g_mu);
    for (;;) {
        /* drop entries that name no servable iteration */
        while (g_k < g_len && !valid_unhanded(g_iter[g_k])) g_k++;
        bool mine_left = false;
        for (long k = g_k; k < g_len; k++) {
            if (g_thread[k] == t_id && valid_unhanded(g_iter[k])) { mine_left = true; break; }
        }
        if (!mine_left) {
            if (g_k >= g_len) {
                /* script used up: serve what it did not name */
                long it = lowest_unhanded();
                if (it >= 0) {
                    hand(it, istart, iend);
                    pthread_cond_broadcast(&g_cv);
                    pthread_mutex_unlock(&g_mu);
                    return true;
                }
            } else if (g_nhanded < g_niter) {
                /* entries of other threads are pending: wait for them, there may be unnamed work afterwards */
                pthread_cond_wait(&g_cv, &g_mu);
                continue;
            }
            g_done[t_id] = 1;
            pthread_cond_broadcast(&g_cv);
            pthread_mutex_unlock(&g_mu);
            return false;
        }
        if (my_turn()) {
            hand(g_iter[g_k], istart, iend);
            g_k++;
            pthread_cond_broadcast(&g_cv);
            pthread_mutex_unlock(&g_mu);
            return true;
        }
        pthread_cond_wait(&g_cv, &g_mu);
    }
}

static bool take_exclusive(long *istart, long *iend) {
    pthread_mutex_lock(&g_mu);
    if (g_running == t_id) g_running = -1;      /* back inside the runtime */
    pthread_cond_broadcast(&g_cv);
    pthread_mutex_unlock(&g_mu);
    for (;;) {
        pthread_mutex_lock(&g_mu);
        while (g_running != -1) pthread_cond_wait(&g_cv, &g_mu);
        pthread_mutex_unlock(&g_mu);
        bool ok = take(istart, iend);
        if (!ok) return false;
        pthread_mutex_lock(&g_mu);
        if (g_running == -1) {
            g_running = t_id;
            pthread_mutex_unlock(&g_mu);
            return true;
        }
        g_error = 3;
        pthread_mutex_unlock(&g_mu);
        return true;
    }
}

/* ---------------------------------------------------------------- the GOMP entry points */

static void open_loop(long start, long end, long incr) {
    pthread_mutex_lock(&g_mu);
    if (!g_loop_open) {
        g_start = start; g_end = end; g_incr = incr == 0 ? 1 : incr; g_loop_open = true;
        g_niter = iter_count(g_start, g_end, g_incr);
        free(g_handed);
        g_handed = (unsigned char *)calloc(g_niter > 0 ? g_niter : 1, 1);
        g_nhanded = 0;
    }
    g_loop_used = true;
    pthread_mutex_unlock(&g_mu);
}

static bool next_iter(long *istart, long *iend) {
    return g_mode == 1 ? take_mode1(istart, iend) : take_exclusive(istart, iend);
}

#define LOOP_START(name) \
    bool name(long start, long end, long incr, long chunk, long *istart, long *iend) { \
        (void)chunk; open_loop(start, end, incr); return next_iter(istart, iend); }
#define LOOP_START_NOCHUNK(name) \
    bool name(long start, long end, long incr, long *istart, long *iend) { \
        open_loop(start, end, incr); return next_iter(istart, iend); }
#define LOOP_NEXT(name) \
    bool name(long *istart, long *iend) { return next_iter(istart, iend); }

LOOP_START(GOMP_loop_nonmonotonic_guided_start)
LOOP_NEXT(GOMP_loop_nonmonotonic_guided_next)
LOOP_START(GOMP_loop_guided_start)
LOOP_NEXT(GOMP_loop_guided_next)
LOOP_START(GOMP_loop_nonmonotonic_dynamic_start)
LOOP_NEXT(GOMP_loop_nonmonotonic_dynamic_next)
LOOP_START(GOMP_loop_dynamic_start)
LOOP_NEXT(GOMP_loop_dynamic_next)
LOOP_START(GOMP_loop_static_start)
LOOP_NEXT(GOMP_loop_static_next)
LOOP_START_NOCHUNK(GOMP_loop_runtime_start)
LOOP_NEXT(GOMP_loop_runtime_next)
LOOP_START_NOCHUNK(GOMP_loop_nonmonotonic_runtime_start)
LOOP_NEXT(GOMP_loop_nonmonotonic_runtime_next)
LOOP_START_NOCHUNK(GOMP_loop_maybe_nonmonotonic_runtime_start)
LOOP_NEXT(GOMP_loop_maybe_nonmonotonic_runtime_next)

static void leave_loop(void) {
    pthread_mutex_lock(&g_mu);
    if (g_mode == 0 && g_running == t_id) g_running = -1;
    pthread_cond_broadcast(&g_cv);
    pthread_mutex_unlock(&g_mu);
}

void GOMP_loop_end_nowait(void) { leave_loop(); }
void GOMP_loop_end(void) { leave_loop(); }
bool GOMP_loop_end_cancel(void) { leave_loop(); return false; }
void GOMP_barrier(void) { }

struct launch { void (*fn)(void *); void *data; int id; };

static void thread_enter(void) {
    if (g_mode == 1) {
        pthread_mutex_lock(&g_mu);
        while (g_current != t_id) pthread_cond_wait(&g_cv, &g_mu);
        pthread_mutex_unlock(&g_mu);
    }
}

static void thread_leave(void) {
    if (g_mode == 1) {
        pthread_mutex_lock(&g_mu);
        g_done[t_id] = 1;
        pass_baton_locked();
        pthread_mutex_unlock(&g_mu);
    }
}

static void *trampoline(void *arg) {
    struct launch *l = (struct launch *)arg;
    t_id = l->id;
    thread_enter();
    l->fn(l->data);
    thread_leave();
    return NULL;
}

static void run_region(void (*fn)(void *), void *data) {
    pthread_t th[MAX_THREADS];
    struct launch ls[MAX_THREADS];
    g_k = 0; g_running = -1; g_oi = 0; g_ci = 0; g_current = -1;
    g_in_parallel = true;
    for (int i = 0; i < g_nthreads; i++) g_done[i] = 0;
    for (int i = 1; i < g_nthreads; i++) {
        ls[i].fn = fn; ls[i].data = data; ls[i].id = i;
        pthread_create(&th[i], NULL, trampoline, &ls[i]);
    }
    t_id = 0;
    if (g_mode == 1) {
        pthread_mutex_lock(&g_mu);
        pass_baton_locked();
        while (g_current != 0) pthread_cond_wait(&g_cv, &g_mu);
        pthread_mutex_unlock(&g_mu);
    }
    fn(data);
    thread_leave();
    for (int i = 1; i < g_nthreads; i++) pthread_join(th[i], NULL);
    g_in_parallel = false;
    if (g_loop_used && g_nhanded != g_niter) {
        g_error = g_error ? g_error : 1;   /* not every iteration of the loop was executed */
    }
    g_loop_open = false;
}

void GOMP_parallel(void (*fn)(void *), void *data, unsigned num_threads, unsigned flags) {
    (void)num_threads; (void)flags;
    g_loop_open = false; g_loop_used = false;
    run_region(fn, data);
}

/* combined constructs: the loop is opened before the region starts, the body calls only _next */
#define PARALLEL_LOOP(name) \
    void name(void (*fn)(void *), void *data, unsigned num_threads, long start, long end, long incr, \
              long chunk, unsigned flags) { \
        (void)num_threads; (void)flags; (void)chunk; \
        g_loop_open = false; g_loop_used = false; \
        open_loop(start, end, incr); run_region(fn, data); }
#define PARALLEL_LOOP_NOCHUNK(name) \
    void name(void (*fn)(void *), void *data, unsigned num_threads, long start, long end, long incr, \
              unsigned flags) { \
        (void)num_threads; (void)flags; \
        g_loop_open = false; g_loop_used = false; \
        open_loop(start, end, incr); run_region(fn, data); }

PARALLEL_LOOP(GOMP_parallel_loop_nonmonotonic_guided)
PARALLEL_LOOP(GOMP_parallel_loop_guided)
PARALLEL_LOOP(GOMP_parallel_loop_nonmonotonic_dynamic)
PARALLEL_LOOP(GOMP_parallel_loop_dynamic)
PARALLEL_LOOP(GOMP_parallel_loop_static)
PARALLEL_LOOP_NOCHUNK(GOMP_parallel_loop_runtime)
PARALLEL_LOOP_NOCHUNK(GOMP_parallel_loop_nonmonotonic_runtime)
PARALLEL_LOOP_NOCHUNK(GOMP_parallel_loop_maybe_nonmonotonic_runtime)
