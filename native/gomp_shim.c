/*
 * Deterministic stand-in for libgomp (C07, binding 3).
 *
 * The repository's dd_dtw_openmp.c is compiled with -fopenmp but linked against this file instead of
 * libgomp.  gcc 12 emits, for "#pragma omp parallel for schedule(guided)", calls to
 *     GOMP_parallel, GOMP_loop_nonmonotonic_guided_start / _next, GOMP_loop_end_nowait.
 * The shim runs the REAL outlined loop bodies on T logical threads (pthreads), but lets exactly one
 * thread run at a time and hands out the loop iterations one by one in the order and to the threads
 * given by a script:   script[k] = (thread, iteration)   for k = 0 .. n-1.
 * Thread switches happen only at chunk boundaries (inside the runtime calls), which is where a
 * conforming OpenMP runtime may interleave work-sharing decisions.  Any schedule kind (static,
 * dynamic, guided, any chunk size, more threads than iterations) is some such script.
 *
 * Control functions (called through ctypes): shim_set_script, shim_last_error.
 */
#include <pthread.h>
#include <stdbool.h>
#include <stdlib.h>
#include <string.h>

#define MAX_SCRIPT 4096
#define MAX_THREADS 64

static int g_nthreads = 1;
static long g_len = 0;
static int g_thread[MAX_SCRIPT];
static long g_iter[MAX_SCRIPT];
static int g_error = 0;

/* state of the running parallel region */
static pthread_mutex_t g_mu = PTHREAD_MUTEX_INITIALIZER;
static pthread_cond_t g_cv = PTHREAD_COND_INITIALIZER;
static long g_k = 0;             /* next script entry to hand out */
static long g_start = 0, g_end = 0, g_incr = 1;
static bool g_loop_open = false;
static int g_done[MAX_THREADS];  /* thread has left the loop */
static __thread int t_id = 0;

void shim_set_script(int nthreads, long len, const int *threads, const long *iters) {
    g_nthreads = nthreads < 1 ? 1 : (nthreads > MAX_THREADS ? MAX_THREADS : nthreads);
    g_len = len > MAX_SCRIPT ? MAX_SCRIPT : len;
    memcpy(g_thread, threads, sizeof(int) * g_len);
    memcpy(g_iter, iters, sizeof(long) * g_len);
    g_error = 0;
}

int shim_last_error(void) { return g_error; }

int omp_get_thread_num(void) { return t_id; }
int omp_get_num_threads(void) { return g_nthreads; }
int omp_get_max_threads(void) { return g_nthreads; }
void omp_set_num_threads(int n) { (void)n; }

/* Who may run now: the thread that owns script entry g_k; when the script is exhausted every thread
   proceeds to leave the loop. */
static bool my_turn(void) {
    if (g_k >= g_len) return true;
    return g_thread[g_k] == t_id;
}

/* Take the next iteration for this thread, or report that there is none left for it. */
static bool take(long *istart, long *iend) {
    pthread_mutex_lock(&g_mu);
    for (;;) {
        /* does the remaining script still hold an entry for this thread? */
        bool mine_left = false;
        for (long k = g_k; k < g_len; k++) {
            if (g_thread[k] == t_id) { mine_left = true; break; }
        }
        if (!mine_left) {
            g_done[t_id] = 1;
            pthread_cond_broadcast(&g_cv);
            pthread_mutex_unlock(&g_mu);
            return false;
        }
        if (my_turn()) {
            long it = g_iter[g_k];
            if (it < 0 || g_start + it * g_incr >= g_end) { g_error = 2; }
            *istart = g_start + it * g_incr;
            *iend = *istart + g_incr;
            g_k++;
            pthread_cond_broadcast(&g_cv);
            pthread_mutex_unlock(&g_mu);
            return true;
        }
        pthread_cond_wait(&g_cv, &g_mu);
    }
}

/* The thread that got an iteration runs it until it comes back for the next one; meanwhile the
   others wait in take().  To keep "one runnable at a time" a thread that holds the next script entry
   only starts once the previous owner is back inside the runtime: enforced with g_running. */
static int g_running = -1;

static bool take_exclusive(long *istart, long *iend) {
    pthread_mutex_lock(&g_mu);
    if (g_running == t_id) g_running = -1;      /* back inside the runtime */
    pthread_cond_broadcast(&g_cv);
    pthread_mutex_unlock(&g_mu);
    for (;;) {
        pthread_mutex_lock(&g_mu);
        while (g_running != -1) pthread_cond_wait(&g_cv, &g_mu);
        pthread_mutex_unlock(&g_mu);
        bool ok = take(istart, iend);
        if (!ok) return false;
        pthread_mutex_lock(&g_mu);
        if (g_running == -1) {
            g_running = t_id;
            pthread_mutex_unlock(&g_mu);
            return true;
        }
        /* lost a race for the baton: cannot happen because take() hands entries out in script order
           and only the owner of entry g_k proceeds */
        g_error = 3;
        pthread_mutex_unlock(&g_mu);
        return true;
    }
}

bool GOMP_loop_nonmonotonic_guided_start(long start, long end, long incr, long chunk, long *istart, long *iend) {
    (void)chunk;
    pthread_mutex_lock(&g_mu);
    if (!g_loop_open) {
        g_start = start; g_end = end; g_incr = incr; g_loop_open = true;
    }
    pthread_mutex_unlock(&g_mu);
    return take_exclusive(istart, iend);
}

bool GOMP_loop_nonmonotonic_guided_next(long *istart, long *iend) {
    return take_exclusive(istart, iend);
}

void GOMP_loop_end_nowait(void) {
    pthread_mutex_lock(&g_mu);
    if (g_running == t_id) g_running = -1;
    pthread_cond_broadcast(&g_cv);
    pthread_mutex_unlock(&g_mu);
}

struct launch { void (*fn)(void *); void *data; int id; };

static void *trampoline(void *arg) {
    struct launch *l = (struct launch *)arg;
    t_id = l->id;
    l->fn(l->data);
    return NULL;
}

void GOMP_parallel(void (*fn)(void *), void *data, unsigned num_threads, unsigned flags) {
    (void)num_threads; (void)flags;
    pthread_t th[MAX_THREADS];
    struct launch ls[MAX_THREADS];
    g_k = 0; g_loop_open = false; g_running = -1;
    for (int i = 0; i < g_nthreads; i++) g_done[i] = 0;
    for (int i = 1; i < g_nthreads; i++) {
        ls[i].fn = fn; ls[i].data = data; ls[i].id = i;
        pthread_create(&th[i], NULL, trampoline, &ls[i]);
    }
    t_id = 0;
    fn(data);
    for (int i = 1; i < g_nthreads; i++) pthread_join(th[i], NULL);
    if (g_k != g_len) g_error = 1;      /* not every scripted iteration was executed */
    g_loop_open = false;
}
