/*
 * Force-included (gcc -include) when dd_dtw_openmp.c is compiled for the deterministic scheduler shim:
 * every call of a distance kernel from that file becomes a scheduling point before and after the call
 * (see gomp_shim.c, mode 1).  The kernels themselves are untouched; a function-like macro is not
 * expanded recursively, so the inner name is the real function.
 */
#ifndef VERIF_SHIM_WRAP_H
#define VERIF_SHIM_WRAP_H
#include "dd_dtw.h"
void shim_yield(void);
double shim_after(double v);
#define dtw_distance(...) (shim_yield(), shim_after(dtw_distance(__VA_ARGS__)))
#define dtw_distance_ndim(...) (shim_yield(), shim_after(dtw_distance_ndim(__VA_ARGS__)))
#define dtw_distance_euclidean(...) (shim_yield(), shim_after(dtw_distance_euclidean(__VA_ARGS__)))
#define dtw_distance_ndim_euclidean(...) (shim_yield(), shim_after(dtw_distance_ndim_euclidean(__VA_ARGS__)))
#define euclidean_distance(...) (shim_yield(), shim_after(euclidean_distance(__VA_ARGS__)))
#define euclidean_distance_ndim(...) (shim_yield(), shim_after(euclidean_distance_ndim(__VA_ARGS__)))
#endif
