"""Binding 1 of C07: derive the model constant SharedVars from the source of each parallel loop."""
import os
import re

from . import build

NAMES = {"r": "r", "c": "c", "c_i": "ci"}


def _match_brace(text, i):
    depth = 0
    for j in range(i, len(text)):
        if text[j] == "{":
            depth += 1
        elif text[j] == "}":
            depth -= 1
            if depth == 0:
                return j
    raise ValueError("unbalanced braces")


def parse(path=None):
    """Returns list of dicts: function, private, loopvar, assigned, declared, shared."""
    path = path or os.path.join(build.REPO, build.CDIR, "dd_dtw_openmp.c")
    text = open(path).read()
    out = []
    for m in re.finditer(r"#pragma\s+omp\s+parallel\s+for([^\n]*)\n", text):
        clauses = m.group(1)
        priv = set()
        for pm in re.finditer(r"(?:first|last)?private\s*\(([^)]*)\)", clauses):
            priv |= {x.strip() for x in pm.group(1).split(",") if x.strip()}
        fm = re.compile(r"\s*for\s*\(\s*(?:\w+\s+)?(\w+)\s*=").match(text, m.end())
        if not fm:
            raise ValueError("pragma not followed by a for loop at offset %d" % m.start())
        loopvar = fm.group(1)
        i = text.index("{", fm.end())
        j = _match_brace(text, i)
        body = text[i + 1:j]
        # enclosing function name
        fn = re.findall(r"^\w[\w\s\*]*?\b(\w+)\s*\([^;{]*\)\s*\{", text[:m.start()], re.M)
        fname = fn[-1] if fn else "?"
        declared = set(re.findall(r"\b(?:double|float|int|idx_t|seq_t|long|size_t|bool)\s+\*?\s*(\w+)\s*(?:=|;|,)", body))
        assigned = set()
        for am in re.finditer(r"(?<![\w\]\.>])(\w+)\s*(=(?!=)|\+\+|--|\+=|-=|\*=)", body):
            assigned.add(am.group(1))
        for am in re.finditer(r"(\+\+|--)\s*(\w+)\b(?!\s*\[)", body):
            assigned.add(am.group(2))
        # array element writes such as output[...] = are not scalars
        arrays = set(re.findall(r"\b(\w+)\s*\[", body))
        scalars = {a for a in assigned if a not in arrays}
        shared = scalars - declared - priv - {loopvar}
        out.append({"function": fname, "private": sorted(priv), "loopvar": loopvar, "assigned": sorted(scalars),
                    "declared": sorted(declared), "shared": sorted(shared)})
    return out


if __name__ == "__main__":
    for f in parse():
        print(f)
