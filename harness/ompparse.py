"""Binding 1 of C07: derive the model constant SharedVars from the source of each parallel loop.

For every `#pragma omp parallel for` in dd_dtw_openmp.c the loop body is scanned for scalars that are
assigned inside the body but are neither declared inside it, nor privatised by a clause (private,
firstprivate, lastprivate, reduction, linear), nor the loop variable: those are shared between the threads.

* r, c, c_i are the scalars the model knows (ParallelDM's SharedVars); TLC decides what sharing them does.
* any other shared scalar is classified:
    harmful  - it is read somewhere in the body AND some assignment to it depends on per-iteration state (the
               loop variable, a privatised or body-local variable, another shared-assigned scalar, or it is
               updated in place with ++ / += ...): threads can read each other's values;
    benign   - write-only flags, or values computed from loop-invariant data only (every thread writes the
               same value).  Reported in the evidence, never as a violation.
"""
import os
import re

from . import build

NAMES = {"r": "r", "c": "c", "c_i": "ci"}
_KEYWORDS = {"return", "else", "goto", "case", "do", "sizeof", "typedef", "break", "continue", "if", "for",
             "while", "switch"}
_IDENT = re.compile(r"[A-Za-z_]\w*")


def _match_brace(text, i):
    depth = 0
    for j in range(i, len(text)):
        if text[j] == "{":
            depth += 1
        elif text[j] == "}":
            depth -= 1
            if depth == 0:
                return j
    raise ValueError("unbalanced braces")


def _strip_comments(text):
    text = re.sub(r"/\*.*?\*/", lambda m: re.sub(r"[^\n]", " ", m.group(0)), text, flags=re.S)
    text = re.sub(r"//[^\n]*", "", text)
    return text


def _declared(body):
    out = set()
    # a declaration starts a statement: [qualifiers] type [*] name (= | ; | , | [)
    for m in re.finditer(r"(?:^|[;{}])\s*((?:(?:const|unsigned|signed|struct|static|volatile|register)\s+)*"
                         r"[A-Za-z_]\w*)\s*[\s\*]\s*\**\s*([A-Za-z_]\w*)\s*(?==|;|,|\[)", body):
        typ = m.group(1).split()[-1]
        if typ in _KEYWORDS or m.group(2) in _KEYWORDS:
            continue
        out.add(m.group(2))
        # further declarators of the same statement: "idx_t a, b = 0, *c;"
        stmt_end = body.find(";", m.end())
        rest = body[m.end():stmt_end if stmt_end >= 0 else len(body)]
        depth = 0
        cur = ""
        parts = []
        for ch in rest:
            if ch in "([{":
                depth += 1
            elif ch in ")]}":
                depth -= 1
            if ch == "," and depth == 0:
                parts.append(cur)
                cur = ""
            else:
                cur += ch
        parts.append(cur)
        for part in parts[1:]:
            dm = re.match(r"\s*\**\s*([A-Za-z_]\w*)", part)
            if dm:
                out.add(dm.group(1))
    # loop-scoped declarations: for (idx_t k = 0; ...)
    for m in re.finditer(r"for\s*\(\s*(?:(?:const|unsigned|signed)\s+)*[A-Za-z_]\w*[\s\*]+([A-Za-z_]\w*)\s*=", body):
        out.add(m.group(1))
    return out


def parse(path=None):
    """Returns list of dicts: function, private, loopvar, assigned, declared, shared, harmful, benign."""
    path = path or os.path.join(build.REPO, build.CDIR, "dd_dtw_openmp.c")
    text = _strip_comments(open(path).read().replace("\\\n", " "))
    out = []
    for m in re.finditer(r"#\s*pragma\s+omp\s+parallel\s+for([^\n]*)\n", text):
        clauses = m.group(1)
        priv = set()
        for pm in re.finditer(r"\b(firstprivate|lastprivate|private|linear)\s*\(([^)]*)\)", clauses):
            for x in pm.group(2).split(","):
                x = x.strip()
                if not x:
                    continue
                if pm.group(1) == "linear":
                    x = x.split(":")[0].strip()           # linear(x:step)
                else:
                    x = x.split(":")[-1].strip()          # lastprivate(conditional: x)
                priv.add(x)
        for pm in re.finditer(r"\breduction\s*\(([^)]*)\)", clauses):
            lst = pm.group(1).split(":", 1)[-1]
            priv |= {x.strip() for x in lst.split(",") if x.strip()}
        fm = re.compile(r"\s*for\s*\(\s*(?:[A-Za-z_]\w*[\s\*]+)?(\w+)\s*=").match(text, m.end())
        if not fm:
            # not a canonical loop we understand: nothing is claimed from the source for this pragma
            out.append({"function": "?", "private": sorted(priv), "loopvar": None, "assigned": [], "declared": [],
                        "shared": [], "harmful": [], "benign": [], "unparsed": True})
            continue
        loopvar = fm.group(1)
        i = text.index("{", fm.end())
        j = _match_brace(text, i)
        body = text[i + 1:j]
        fn = re.findall(r"^\w[\w\s\*]*?\b(\w+)\s*\([^;{]*\)\s*\{", text[:m.start()], re.M)
        fname = fn[-1] if fn else "?"
        declared = _declared(body)
        assigned = {}
        for am in re.finditer(r"(?<![\w\]\.>])([A-Za-z_]\w*)\s*(=(?!=)|\+\+|--|\+=|-=|\*=|/=|\|=|&=|\^=|<<=|>>=)", body):
            name, op = am.group(1), am.group(2)
            if name in _KEYWORDS:
                continue
            end = body.find(";", am.end())
            rhs = body[am.end():end if end >= 0 else len(body)]
            assigned.setdefault(name, []).append((op, rhs, am.start()))
        for am in re.finditer(r"(\+\+|--)\s*([A-Za-z_]\w*)\b(?!\s*\[)", body):
            assigned.setdefault(am.group(2), []).append((am.group(1), "", am.start()))
        # array element writes such as output[...] = are not scalars
        arrays = set(re.findall(r"\b(\w+)\s*\[", body))
        scalars = {a for a in assigned if a not in arrays}
        shared = scalars - declared - priv - {loopvar}
        per_iter = declared | priv | {loopvar} | shared
        harmful, benign = [], []
        for v in sorted(shared):
            if v in NAMES:
                continue
            writes = assigned[v]
            # is it read anywhere other than as the target of a plain assignment?
            occurrences = [mm.start() for mm in re.finditer(r"(?<![\w\.>])%s\b" % re.escape(v), body)]
            plain_targets = {pos for (op, _rhs, pos) in writes if op == "="}
            read = any(pos not in plain_targets for pos in occurrences)
            dependent = any(op != "=" or (set(_IDENT.findall(rhs)) & (per_iter - {v})) for (op, rhs, _p) in writes)
            (harmful if (read and dependent) else benign).append(v)
        out.append({"function": fname, "private": sorted(priv), "loopvar": loopvar, "assigned": sorted(scalars),
                    "declared": sorted(declared), "shared": sorted(shared), "harmful": harmful, "benign": benign})
    return out


if __name__ == "__main__":
    for f in parse():
        print(f)
