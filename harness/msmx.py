"""Worker-side execution of MSM cases (extension X01)."""
import math

from . import dtwx


def enc(v, S):
    try:
        v = float(v)
    except Exception:
        return dtwx.OFF_LATTICE
    if v != v or math.isinf(v) or v < 0:
        return dtwx.OFF_LATTICE
    k = round(v * S)
    if abs(k / S - v) <= 4 * max(math.ulp(v), math.ulp(k / S)) and k < 90000000:
        return int(k)
    return dtwx.OFF_LATTICE


def run_x01(it):
    import array
    import numpy as np
    from dtaidistance import msm
    S = it["S"]
    x = [v / S for v in it["x"]]
    y = [v / S for v in it["y"]]
    c = it["smc"] / S
    obs = []

    def add(route, fn):
        r = dtwx.guarded(fn)
        obs.append({"route": route + (":raised" if dtwx.is_raised(r) else ""),
                    "val": dtwx.RAISED if dtwx.is_raised(r) else enc(r, S)})
    add("msm.distance[list]", lambda: msm.distance(x, y, sm_cost=c))
    add("msm.distance[numpy]", lambda: msm.distance(np.array(x, dtype=np.double), np.array(y, dtype=np.double), sm_cost=c))
    add("msm.distance[array]", lambda: msm.distance(array.array("d", x), array.array("d", y), sm_cost=c))
    # symmetry and identity on the observed numbers
    add("msm.distance[swapped]", lambda: msm.distance(y, x, sm_cost=c))
    return {"id": it["id"], "obs": obs, "routes": [o["route"] for o in obs]}
