"""Worker-side execution of k-NN subsequence-search call histories (C14)."""
from . import dtwx

_np = None


def np():
    global _np
    if _np is None:
        import numpy
        _np = numpy
    return _np


def run_c14(it):
    from dtaidistance.subsequence.subsequencesearch import subsequence_search
    S = it["S"]
    c = dict(it["set"])
    c["S"] = S
    c["s1"] = it["q"]
    c["s2"] = it["cands"][0]
    nd = len(it["q"][0])

    def arr(pts):
        a = np().array([[x / S for x in p] for p in pts], dtype=np().double)
        return a[:, 0].copy() if nd == 1 else a
    q = arr(it["q"])
    cands = [arr(s) for s in it["cands"]]
    calls = []
    for variant in it["variants"]:
        use_lb, use_c = variant["use_lb"], variant["use_c"]
        opts = {}
        if it["set"]["w"]:
            opts["window"] = it["set"]["w"]
        if it["set"]["pen"]:
            opts["penalty"] = it["set"]["pen"] / S
        if any(it["set"]["psi"]):
            opts["psi"] = tuple(it["set"]["psi"])
        if it["set"]["inner"] == "eu":
            opts["inner_dist"] = "euclidean"
        kwargs = {}
        if it["set"]["md"]:
            md = dtwx.max_dist_user(dict(c, md=it["set"]["md"]))
            if variant.get("both") == "value_smaller":
                # both thresholds given: the smaller one is in force
                kwargs["max_dist"] = md * 3
                kwargs["max_value"] = md / len(it["q"])
            elif variant.get("both") == "dist_smaller":
                kwargs["max_dist"] = md
                kwargs["max_value"] = md * 3 / len(it["q"])
            elif variant.get("as_value"):
                kwargs["max_value"] = md / len(it["q"])
            else:
                kwargs["max_dist"] = md
        tag = "%s%s%s" % ("lb," if use_lb else "", "c" if use_c else "py",
                          (",both:" + variant["both"]) if (variant.get("both") and it["set"]["md"]) else "")
        r = dtwx.guarded(lambda: subsequence_search(q, cands, dists_options=dict(opts), use_lb=use_lb,
                                                    use_c=use_c, **kwargs))
        if dtwx.is_raised(r):
            calls.append({"route": tag + ":new:raised", "k": 1, "ans": [[dtwx.RAISED, 0]], "raised": False})
            continue
        ss = r
        for n, (op, k) in enumerate(it["history"]):
            name = "%s:#%d:%s(%s)" % (tag, n, op, "None" if k < 0 else k)

            def do():
                if op == "kbest":
                    ms = ss.kbest_matches(k=(None if k < 0 else k))
                    return [(m.distance, m.idx) for m in ms]
                if op == "kbest_fast":
                    ms = ss.kbest_matches_fast(k=(None if k < 0 else k))
                    return [(m.distance, m.idx) for m in ms]
                if op == "best":
                    m = ss.best_match()
                    return [(m.distance, m.idx)]
                if op == "align":
                    return [(d, i) for d, i in ss.align(k=(None if k < 0 else k))]
                if op == "reset":
                    ss.reset()
                    return None
            r2 = dtwx.guarded(do)
            if op == "reset":
                continue
            kk = 1 if op == "best" else k
            if dtwx.is_raised(r2) and op == "best":
                # best_match on a search without any eligible candidate has nothing to return
                calls.append({"route": name + ":raised", "k": kk, "ans": [], "raised": True})
            elif dtwx.is_raised(r2):
                calls.append({"route": name + ":raised", "k": kk, "ans": [[dtwx.RAISED, 0]], "raised": False})
            else:
                calls.append({"route": name, "k": kk,
                              "ans": [[dtwx.enc_cost(c, d), int(i)] for d, i in r2], "raised": False})
    return {"id": it["id"], "calls": calls, "routes": [x["route"] for x in calls]}
