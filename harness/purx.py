"""Worker-side execution of call histories on shared caller-owned objects (C20)."""
import array
import json
import math
import os
import random

from . import dtwx

_np = None


def np():
    global _np
    if _np is None:
        import numpy
        _np = numpy
    return _np


NONP = os.environ.get("DTAIDISTANCE_TESTWITHOUTNUMPY") == "1"


def make(content, kind):
    """content: list of points (lists); 1-D series have 1-element points."""
    nd = len(content[0])
    flat = nd == 1
    vals = [float(p[0]) for p in content] if flat else [[float(x) for x in p] for p in content]
    if kind == "list":
        return vals
    if kind == "tuple":
        return tuple(vals) if flat else tuple(tuple(p) for p in vals)
    if kind == "array":
        return array.array("d", vals)
    a = np().array(vals, dtype=np().double)
    if kind == "numpy":
        return a
    if kind == "numpy_strided":
        if flat:
            b = np().full(2 * len(vals), 77.0)
            b[::2] = a
            return b[::2]
        b = np().full((2 * a.shape[0], a.shape[1]), 77.0)
        b[::2, :] = a
        return b[::2, :]
    if kind == "numpy_f":
        return np().asfortranarray(a)
    if kind == "numpy_tview":      # transposed view of the transposed copy: same content, F-ordered strides
        return np().ascontiguousarray(a.T).T
    if kind == "numpy_neg":
        return a[::-1].copy()[::-1]
    raise ValueError(kind)


def read(obj):
    """Canonical content (ints) of a container."""
    if isinstance(obj, dict):
        return sorted((k, canon(v)) for k, v in obj.items())
    if isinstance(obj, (list, tuple)) and obj and isinstance(obj[0], (list, tuple, array.array)) or \
            (np() is not None and not NONP and isinstance(obj, (list, tuple)) and obj and hasattr(obj[0], "shape")):
        return [read(x) for x in obj]
    if hasattr(obj, "tolist"):
        obj = obj.tolist()
    out = []
    for p in obj:
        if isinstance(p, (list, tuple)):
            out.append([int(round(x)) for x in p])
        else:
            out.append([int(round(p))])
    return out


def canon(x):
    """Canonical, comparable encoding of a result."""
    if x is None or isinstance(x, (str, bool)):
        return x
    if isinstance(x, dict):
        return sorted([[canon(k), canon(v)] for k, v in x.items()], key=lambda kv: json.dumps(kv[0], default=str))
    if isinstance(x, (set, frozenset)):
        return sorted(canon(v) for v in x)
    if hasattr(x, "tolist") and not isinstance(x, (bytes,)):
        x = x.tolist()
    if isinstance(x, (list, tuple, array.array)):
        return [canon(v) for v in x]
    if isinstance(x, int):
        return x
    try:
        f = float(x)
    except Exception:
        return str(x)
    if f != f:
        return "nan"
    if math.isinf(f):
        return "inf" if f > 0 else "-inf"
    return "%.10g" % f


def run_c20(it):
    from dtaidistance import dtw, ed, dtw_barycenter
    if not NONP:
        from dtaidistance import dtw_ndim
        from dtaidistance.util import SeriesContainer
    store = {}          # (object name, kind) -> container; created once, shared by later calls
    dicts = {name: dict(d) for name, d in it["dicts"].items()}
    h = []

    def obj(name, kind):
        key = (name, kind)
        if key not in store:
            content = it["objs"][name]
            if isinstance(content, dict) and "col" in content:
                parts = [make(it["objs"][n], content["elem"]) for n in content["col"]]
                if kind == "col_list":
                    store[key] = parts
                elif kind == "col_tuple":
                    store[key] = tuple(parts)
                elif kind == "col_2d":
                    store[key] = np().array(parts, dtype=np().double)
                elif kind == "col_container":
                    store[key] = SeriesContainer.wrap(parts)
                else:
                    raise ValueError(kind)
            else:
                store[key] = make(content, kind)
        return store[key]

    def snapshot():
        snap = []
        for (name, kind), o in sorted(store.items()):
            try:
                if kind == "col_container":
                    snap.append([name, kind, read(list(o.series))])
                else:
                    snap.append([name, kind, read(o)])
            except Exception as exc:
                snap.append([name, kind, "unreadable:" + str(exc)[:40]])
        for name, d in sorted(dicts.items()):
            snap.append([name, "dict", canon(d)])
        return snap

    for call in it["calls"]:
        if NONP and not call.get("nonumpy_ok"):
            continue
        rt = call["routine"]
        args = [obj(n, k) for n, k in zip(call["args"], call["kinds"])]
        opts = dict(call.get("opts", {}))
        if "psi" in opts and isinstance(opts["psi"], list):
            opts["psi"] = tuple(opts["psi"])
        shared = dicts.get(call.get("dict")) if call.get("dict") else None
        before = snapshot()
        raised = False
        try:
            if rt == "dtw.distance":
                res = dtw.distance(args[0], args[1], **opts)
            elif rt == "dtw.distance[use_c]":
                res = dtw.distance(args[0], args[1], use_c=True, **opts)
            elif rt == "dtw.distance_fast":
                res = dtw.distance_fast(args[0], args[1], **opts)
            elif rt == "dtw.lb_keogh":
                res = dtw.lb_keogh(args[0], args[1], **opts)
            elif rt == "dtw.lb_keogh[use_c]":
                res = dtw.lb_keogh(args[0], args[1], use_c=True, **opts)
            elif rt == "ed.distance":
                res = ed.distance(args[0], args[1])
            elif rt == "ed.distance_fast":
                res = ed.distance_fast(args[0], args[1])
            elif rt == "dtw.ub_euclidean":
                res = dtw.ub_euclidean(args[0], args[1])
            elif rt == "dtw.warping_paths":
                res = dtw.warping_paths(args[0], args[1], **opts)
            elif rt == "dtw.warping_paths_fast":
                res = dtw.warping_paths_fast(args[0], args[1], **opts)
            elif rt == "dtw.warping_path":
                res = dtw.warping_path(args[0], args[1], **opts)
            elif rt == "dtw.warping_path_fast":
                res = dtw.warping_path_fast(args[0], args[1], **opts)
            elif rt == "dtw.warp":
                res = dtw.warp(args[0], args[1], **opts)
            elif rt == "dtw_ndim.distance":
                res = dtw_ndim.distance(args[0], args[1], **opts)
            elif rt == "dtw_ndim.distance_fast":
                res = dtw_ndim.distance_fast(args[0], args[1], **opts)
            elif rt == "dtw_ndim.distance_matrix":
                res = dtw_ndim.distance_matrix(args[0], compact=True, **opts)
            elif rt == "dtw_ndim.distance_matrix_fast":
                res = dtw_ndim.distance_matrix_fast(args[0], compact=True, parallel=False, **opts)
            elif rt == "dtw.distance_matrix":
                res = dtw.distance_matrix(args[0], compact=True, parallel=call.get("parallel", False), **opts)
            elif rt == "dtw.distance_matrix[dict]":
                res = dtw.distance_matrix(args[0], compact=True, **shared)
            elif rt == "dtw.distance_matrix_fast":
                res = dtw.distance_matrix_fast(args[0], compact=True, parallel=call.get("parallel", False), **opts)
            elif rt == "dba":
                res = dtw_barycenter.dba(args[0], args[1], use_c=call.get("use_c", False), **opts)
            elif rt == "dba_loop":
                res = dtw_barycenter.dba_loop(args[0], args[1], max_it=2, thr=None, use_c=call.get("use_c", False), **opts)
            elif rt == "subsequence_search":
                from dtaidistance.subsequence.subsequencesearch import subsequence_search
                ss = subsequence_search(args[0], args[1], dists_options=shared, use_c=call.get("use_c", False),
                                        use_lb=call.get("use_lb", True))
                res = [(m.distance, m.idx) for m in ss.kbest_matches(k=call.get("k", 2))]
            elif rt == "subsequence_alignment":
                from dtaidistance.subsequence.subsequencealignment import subsequence_alignment
                sa = subsequence_alignment(args[0], args[1], use_c=call.get("use_c", False))
                bm = sa.best_match()
                res = [sa.matching_function(), bm.segment, bm.path]
            elif rt == "Hierarchical.fit":
                from dtaidistance.clustering import hierarchical as H
                model = H.Hierarchical(dtw.distance_matrix_fast if call.get("use_c") else dtw.distance_matrix, shared,
                                       show_progress=False)
                res = model.fit(args[0])
            elif rt == "KMeans.fit":
                from dtaidistance.clustering.kmeans import KMeans
                np().random.seed(7)
                random.seed(7)
                model = KMeans(k=2, max_it=2, max_dba_it=2, dists_options=shared, show_progress=False)
                r0, r1 = model.fit(args[0], use_parallel=False)
                res = [r0, r1, [canon(m) for m in model.means]]
            else:
                raise ValueError(rt)
        except Exception as exc:
            res = "RAISED:" + type(exc).__name__ + ":" + str(exc)[:80]
            raised = True
        after = snapshot()
        # objects created by THIS call are not in `before`: compare on the common keys, and a new object
        # must read back as the content it was created from
        bmap = {(x[0], x[1]): x[2] for x in before}
        aft = []
        bef = []
        for x in after:
            key = (x[0], x[1])
            aft.append(x)
            if key in bmap:
                bef.append([x[0], x[1], bmap[key]])
            else:
                c0 = it["objs"].get(x[0]) if x[1] != "dict" else None
                if x[1].startswith("col_"):
                    c0 = [it["objs"][n] for n in it["objs"][x[0]]["col"]]
                if x[1] == "dict":
                    c0 = canon(dict(it["dicts"][x[0]]))
                bef.append([x[0], x[1], c0])
        # routines whose result is a number determined by the content share a token across engines; routines
        # that may legitimately pick among ties (paths, merges, averages) keep the engine in the token
        base = rt.replace("[dict]", "")
        if base.replace("[use_c]", "").replace("_fast", "") in ("dtw.distance", "dtw.lb_keogh", "ed.distance",
                                                              "dtw.distance_matrix", "dtw_ndim.distance",
                                                              "dtw_ndim.distance_matrix"):
            base = base.replace("[use_c]", "").replace("_fast", "")
        else:
            base = base + ("[c]" if call.get("use_c") else "")
        token = json.dumps([base,
                            [it["objs"][n] if not (isinstance(it["objs"][n], dict)) else
                             [it["objs"][m] for m in it["objs"][n]["col"]] for n in call["args"]],
                            canon(call.get("opts", {})), canon(it["dicts"].get(call.get("dict"), {})),
                            call.get("k"), call.get("use_lb")], sort_keys=True)
        rec = {"route": "%s(%s)[%s]%s" % (rt, ",".join(call["args"]), ",".join(call["kinds"]), ":nonumpy" if NONP else ""),
               "before": bef, "after": aft, "token": token, "result": json.dumps(canon(res)), "raised": raised,
               "hasspec": False, "specresult": 0, "c": {"s1": [[0]], "s2": [[0]], "inner": "sq", "w": 0, "pen": 0,
                                                         "ms": 0, "md": 0, "mld": -1, "psi": [0, 0, 0, 0]}}
        if rt.startswith("dtw.distance") and "matrix" not in rt and not raised and call.get("case"):
            rec["hasspec"] = True
            rec["c"] = dtwx.tla_case(call["case"])
            rec["specresult"] = dtwx.enc_cost(call["case"], res)
        h.append(rec)
    return {"id": it["id"], "h": h, "routes": [r["route"] for r in h]}
