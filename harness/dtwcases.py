"""Enumeration of DTW cases (exact domain). Mirrors the constants of the MC_* configurations."""
import itertools

from .core import thin


def all_series(L, vals, minlen=1):
    out = []
    for n in range(minlen, L + 1):
        for t in itertools.product(vals, repeat=n):
            out.append([[v] for v in t])
    return out


def series_of_len(n, vals):
    return [[[v] for v in t] for t in itertools.product(vals, repeat=n)]


def psi_tuples(l1, l2, pmax=None):
    m1 = l1 if pmax is None else min(pmax, l1)
    m2 = l2 if pmax is None else min(pmax, l2)
    for p in itertools.product(range(m1 + 1), range(m1 + 1), range(m2 + 1), range(m2 + 1)):
        if (p[0] >= l1 and p[3] >= l2) or (p[2] >= l2 and p[1] >= l1):
            continue      # degenerate: allows an empty alignment
        yield p


def base_case(s1, s2, S=1, inner="sq", w=0, pen=0, ms=0, md=0, mld=-1, psi=(0, 0, 0, 0), prune=False):
    return {"s1": s1, "s2": s2, "S": S, "inner": inner, "w": w, "pen": pen, "ms": ms, "md": md,
            "mld": mld, "psi": list(psi), "prune": prune}


def _exact_euclid(c):
    import math
    if c["inner"] != "eu" or len(c["s1"][0]) == 1:
        return True
    for p in c["s1"]:
        for q in c["s2"]:
            s = sum((a - b) ** 2 for a, b in zip(p, q))
            if math.isqrt(s) ** 2 != s:
                return False
    return True


def with_ids(cases, prefix):
    for n, c in enumerate(cases):
        c["id"] = "%s%d" % (prefix, n)
        assert _exact_euclid(c), "point alphabet must have integer Euclidean distances"
    return cases


def nontrivial_flags(c):
    """Cheap structural classification used for evidence counting."""
    l1, l2 = len(c["s1"]), len(c["s2"])
    w = c["w"] or max(l1, l2)
    band_cuts = w < max(l1, l2)
    return {
        "band_cuts": band_cuts,
        "psi": any(c["psi"]),
        "unequal": l1 != l2,
        "pen": c["pen"] != 0,
        "ms": c["ms"] != 0,
        "md": c["md"] != 0,
    }


def is_nontrivial(c):
    f = nontrivial_flags(c)
    return any(f.values())


def slice_values(L, vals, windows, pens, S=1, inner="sq", frac=1.0, seed=0, salt="v", **kw):
    """Every pair of series up to length L over vals x windows x penalties."""
    ser = all_series(L, vals)
    out = []
    for a in ser:
        for b in ser:
            for w in windows:
                if w > max(len(a), len(b)) + 1:
                    continue
                for p in pens:
                    out.append(base_case(a, b, S=S, inner=inner, w=w, pen=p, **kw))
    return thin(out, frac, seed, salt)


def slice_psi(L, vals, windows, pens=(0,), pmax=None, frac=1.0, seed=0, salt="psi", inner="sq", S=1, **kw):
    ser = all_series(L, vals)
    out = []
    for a in ser:
        for b in ser:
            for psi in psi_tuples(len(a), len(b), pmax):
                if not any(psi):
                    continue
                for w in windows:
                    if w > max(len(a), len(b)) + 1:
                        continue
                    for p in pens:
                        out.append(base_case(a, b, S=S, inner=inner, w=w, pen=p, psi=psi, **kw))
    return thin(out, frac, seed, salt)


def random_cases(rng, n, Lmax, vals, S=1, inners=("sq",), windows=None, pens=(0, 1, 2), mss=(0,), mds=(0,),
                 mlds=(-1,), psi_prob=0.5, ndim=1, points=None, prune=False):
    """Seeded larger cases (still exact)."""
    out = []
    for _ in range(n):
        l1 = rng.randint(1, Lmax)
        l2 = rng.randint(1, Lmax)
        if points is not None:
            a = [list(rng.choice(points)) for _ in range(l1)]
            b = [list(rng.choice(points)) for _ in range(l2)]
        else:
            a = [[rng.choice(vals) for _ in range(ndim)] for _ in range(l1)]
            b = [[rng.choice(vals) for _ in range(ndim)] for _ in range(l2)]
        if windows is None:
            w = rng.choice([0] + list(range(1, max(l1, l2) + 2)))
        else:
            w = rng.choice(windows)
        if rng.random() < psi_prob:
            psi = None
            for _try in range(20):
                psi = (rng.randint(0, l1), rng.randint(0, l1), rng.randint(0, l2), rng.randint(0, l2))
                if rng.random() < 0.3:
                    k = rng.randint(0, min(l1, l2))
                    psi = (k, k, k, k)
                if not ((psi[0] >= l1 and psi[3] >= l2) or (psi[2] >= l2 and psi[1] >= l1)):
                    break
                psi = None
            if psi is None:
                psi = (0, 0, 0, 0)
        else:
            psi = (0, 0, 0, 0)
        out.append(base_case(a, b, S=S, inner=rng.choice(list(inners)), w=w, pen=rng.choice(list(pens)),
                             ms=rng.choice(list(mss)), md=rng.choice(list(mds)), mld=rng.choice(list(mlds)),
                             psi=psi, prune=prune))
    return out


def sliding_end_cases(rng, n, pts, inners):
    """Relaxed ends under a SLIDING band: series longer than twice the window plus the length difference, small
    psi at the end of either series, and a tail that makes skipping exactly those points attractive."""
    out = []
    for _ in range(n):
        l1, l2 = rng.randint(5, 9), rng.randint(5, 9)
        w = rng.choice([1, 2, 2, 3])
        e1, e2 = rng.choice([(0, 1), (0, 2), (1, 0), (2, 0), (1, 1), (1, 2), (2, 1)])
        base = [list(rng.choice(pts)) for _ in range(max(l1, l2))]
        a = [list(p) for p in base[:l1]]
        b = [list(p) for p in base[:l2]]
        for k in range(rng.randint(0, 2)):
            b[rng.randrange(l2)] = list(rng.choice(pts))
        far = list(pts[-2])
        for k in range(e2):
            b[l2 - 1 - k] = far if a[min(l1 - 1, l2 - 1 - k)] != far else list(pts[0])
        for k in range(e1):
            a[l1 - 1 - k] = far if b[min(l2 - 1, l1 - 1 - k)] != far else list(pts[0])
        out.append(base_case(a, b, inner=rng.choice(list(inners)), w=w, pen=rng.choice([0, 0, 1]),
                             psi=(rng.choice([0, 0, 1]), e1, rng.choice([0, 0, 1]), e2)))
    return out
