"""Worker-side execution of Needleman-Wunsch cases (C17)."""
import itertools

from . import dtwx

SYM = "ACGT"
S = 2     # scores are scaled by 2 (gap costs of 0.5 and 1.5 are exact)


def fresh(kind, x):
    """Symbol number x as a NEW object on every call: equal to, but never identical with, its other occurrences
    (symbols are compared by value: sequences of arbitrary hashable items are documented input)."""
    if kind == "tuple":
        return tuple([x, 1000 + x])
    if kind == "bigint":
        return int("1%03d" % x)              # > 256: not one of CPython's shared small integers
    if kind == "word":
        return "".join(["sym", SYM[x]])      # built at run time: not interned
    return SYM[x]


def decode(kind, v, A):
    if isinstance(v, str) and v == "-":
        return -1
    for x in range(A):
        if fresh(kind, x) == v:
            return x
    return -7


def run_c17(it):
    from dtaidistance import alignment
    kind = it.get("symbols", "char")
    if kind == "char":
        s1 = "".join(SYM[x] for x in it["s1"])
        s2 = "".join(SYM[x] for x in it["s2"])
        if it.get("aslist"):
            s1, s2 = list(s1), list(s2)
    else:
        s1 = [fresh(kind, x) for x in it["s1"]]
        s2 = [fresh(kind, x) for x in it["s2"]]
    sc = it["scoring"]
    A = it["A"]
    # score table as the specification sees it (maximise), scaled by S
    if sc["kind"] == "default":
        subst = None
        sub = [[(S if a == b else -S) for b in range(A)] for a in range(A)]
        gap = -S
    else:
        matrix = {}
        sub = [[(S if a == b else -S) for b in range(A)] for a in range(A)]
        mod = 1 if sc["opt"] == "max" else -1
        for (a, b, v) in sc["entries"]:          # v in half units
            matrix[(fresh(kind, a), fresh(kind, b))] = mod * v / S
            sub[a][b] = v
            if not sc.get("asym"):
                sub[b][a] = v         # one orientation listed: the library looks the pair up in either order
        subst = alignment.make_substitution_fn(matrix, gap=sc["gap"] / S, opt=sc["opt"])
        gap = -sc["gap"]
    route = "needleman_wunsch[%s%s]" % (sc["kind"], "" if kind == "char" else ",symbols=" + kind)
    r = dtwx.guarded(lambda: alignment.needleman_wunsch(s1, s2, substitution=subst))
    if dtwx.is_raised(r):
        return {"id": it["id"], "route": route + ":raised", "value": -999999, "scores": [], "aligns": [], "sub": sub,
                "gap": gap, "routes": [route]}
    value, scores, paths = r

    def enc(x):
        x = float(x) * S
        return int(round(x)) if abs(x - round(x)) < 1e-9 else -999998
    aligns = []
    for order in itertools.permutations([0, 1, 2]):
        ra = dtwx.guarded(lambda: alignment.best_alignment(paths, s1, s2, gap="-", order=list(order)))
        name = "best_alignment[order=%s]" % "".join(map(str, order))
        if dtwx.is_raised(ra):
            aligns.append({"route": name + ":raised", "a1": [0], "a2": []})
        else:
            _p, a1, a2 = ra
            aligns.append({"route": name, "a1": [decode(kind, x, it["A"]) for x in a1],
                           "a2": [decode(kind, x, it["A"]) for x in a2]})
    ra = dtwx.guarded(lambda: alignment.best_alignment(paths, s1, s2))
    if not dtwx.is_raised(ra):
        aligns.append({"route": "best_alignment[default]", "a1": [decode(kind, x, it["A"]) for x in ra[1]],
                       "a2": [decode(kind, x, it["A"]) for x in ra[2]]})
    return {"id": it["id"], "route": route, "value": enc(value), "scores": [[enc(v) for v in row] for row in scores],
            "aligns": aligns, "sub": sub, "gap": gap, "routes": [route] + [a["route"] for a in aligns]}
