"""Entry point: ./check <ID> [--tier quick|thorough] [--replay path]"""
import argparse
import importlib
import os
import sys
import traceback

VERIF = os.path.dirname(os.path.dirname(os.path.abspath(__file__)))
sys.path.insert(0, VERIF)

from harness import core, tlc  # noqa: E402


def main():
    ap = argparse.ArgumentParser()
    ap.add_argument("pid")
    ap.add_argument("--tier", default=os.environ.get("VERIF_TIER", "quick"))
    ap.add_argument("--replay", default=None)
    a = ap.parse_args()
    seed = int(os.environ.get("VERIF_SEED", "0") or 0)
    tier = a.tier if a.tier in ("quick", "thorough") else "quick"
    os.environ["VERIF_TIER_EFFECTIVE"] = tier
    ctx = core.Ctx(a.pid, tier, seed)
    try:
        mod = importlib.import_module("props." + a.pid.lower())
        if a.replay:
            rc = mod.replay(ctx, a.replay)
        else:
            rc = mod.run(ctx)
    except Exception:
        traceback.print_exc()
        print("MACHINERY-FAILURE property=%s (exit 2)" % a.pid)
        tlc.cleanup()
        sys.exit(2)
    sys.exit(rc)


if __name__ == "__main__":
    main()
