"""tlapm runner: discharges spec/LayoutProofs.tla (statements about ALL sizes; TLC checks the same ones bounded)."""
import os
import re
import shutil
import subprocess
import tempfile

from . import tlc


def layout_proofs(strict=False):
    """Returns {"proved": n} or {"unavailable": why}.  With strict=True an unproved obligation raises."""
    if shutil.which("tlapm") is None:
        if strict:
            raise RuntimeError("tlapm is not on PATH")
        return {"unavailable": "tlapm is not on PATH"}
    d = tempfile.mkdtemp(prefix="tlaps-", dir=tlc.run_dir())
    for f in ("Layout.tla", "LayoutProofs.tla"):
        with open(os.path.join(tlc.SPEC, f)) as src, open(os.path.join(d, f), "w") as dst:
            dst.write(src.read())
    try:
        r = subprocess.run(["tlapm", "--debug=oldsmt", "--cleanfp", "--stretch", "10", "LayoutProofs.tla"], cwd=d,
                           capture_output=True, text=True, timeout=3000)
        out = r.stdout + r.stderr
    except Exception as exc:           # timeout, OSError
        if strict:
            raise
        return {"unavailable": str(exc)[:200]}
    m = re.search(r"All (\d+) obligations? proved", out)
    if r.returncode != 0 or not m:
        if strict:
            raise RuntimeError("tlapm did not prove LayoutProofs.tla:\n" + out[-3000:])
        return {"unavailable": "tlapm failed: " + out[-300:]}
    return {"proved": int(m.group(1)), "theorems": ["BandSymmetric", "CornersSymmetric", "StepsSymmetric", "RelaxationsOnlyAdd",
                                                   "WindowOneIsDiagonal", "LoopIsBand", "CornerInBand",
                                                   "RollingIndicesInside", "RollingReadsWhatWasWritten",
                                                   "RollingFinalIsCorner", "CompactLayout"]}
