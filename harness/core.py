"""Shared plumbing: context, worker pools, evidence, findings, verdict output."""
import hashlib
import json
import math
import multiprocessing as mp
import os
import random
import sys
import time

from . import build, tlc

VERIF = os.path.dirname(os.path.dirname(os.path.abspath(__file__)))
EVID = os.path.join(VERIF, "evidence")
REPLAYS = os.path.join(VERIF, "replays")
FINDINGS = os.path.join(VERIF, "known_findings.jsonl")
NPROC = min(16, os.cpu_count() or 4)


class Ctx:
    def __init__(self, pid, tier, seed):
        self.pid = pid
        self.tier = tier
        self.seed = seed
        self.t0 = time.time()
        self.states = 0
        self.transitions = 0
        self.traces = 0
        self.evaluations = 0
        self.nontrivial = set()
        self.samples = []
        self.violations = []      # (what, replay_path)
        self.known_hits = {}      # finding id -> count
        self.notes = []
        self.assumptions = []
        self.exhaustive = False
        self.rule = ""
        self.extra = {}
        self.src = None

    @property
    def quick(self):
        return self.tier == "quick"

    def rng(self, salt=""):
        return random.Random("%s-%s-%s" % (self.pid, self.seed, salt))

    def add_mc(self, res):
        self.states += res.get("distinct", 0)
        self.transitions += res.get("generated", 0)

    def add_tv(self, res):
        self.states += res["states"]
        self.transitions += res["transitions"]
        self.traces += res["judged"]

    def log(self, msg):
        print("[%s %6.1fs] %s" % (self.pid, time.time() - self.t0, msg), flush=True)


# ---------------------------------------------------------------------------------------------
# worker pools: processes in which the freshly built dtaidistance is importable
def _init_worker(src, env):
    for k, v in env.items():
        os.environ[k] = v
    os.environ.setdefault("OMP_NUM_THREADS", "1")
    if src not in sys.path:
        sys.path.insert(0, src)
    if VERIF not in sys.path:
        sys.path.insert(0, VERIF)


def _call(args):
    modname, fname, item = args
    import importlib
    mod = importlib.import_module(modname)
    return getattr(mod, fname)(item)


def pool_map(src, modname, fname, items, env=None, nproc=None, chunksize=64):
    """Run harness.<modname>.<fname>(item) for every item in fresh worker processes."""
    items = list(items)
    if not items:
        return []
    ctx = mp.get_context("fork")
    with ctx.Pool(nproc or NPROC, initializer=_init_worker, initargs=(src, env or {})) as p:
        return p.map(_call, [(modname, fname, it) for it in items], chunksize=chunksize)


# ---------------------------------------------------------------------------------------------
# findings (read-only at run time)
def load_findings(pid):
    known, fixed = [], []
    if os.path.exists(FINDINGS):
        for line in open(FINDINGS):
            line = line.strip()
            if not line or line.startswith("#"):
                continue
            f = json.loads(line)
            if f.get("property") != pid:
                continue
            (known if f.get("status") == "known" else fixed).append(f)
    return known, fixed


def write_replay(ctx, name, payload):
    os.makedirs(REPLAYS, exist_ok=True)
    p = os.path.join(REPLAYS, "%s-%s.json" % (ctx.pid, name))
    with open(p, "w") as fh:
        json.dump(payload, fh, indent=1, default=str)
    return p


def finish(ctx, level="model_checking"):
    """Write evidence, print KNOWN-FINDING / VIOLATION lines, return exit code."""
    os.makedirs(EVID, exist_ok=True)
    cov = {
        "states": ctx.states,
        "transitions": ctx.transitions,
        "traces_validated_against_impl": ctx.traces,
        "evaluations": ctx.evaluations,
        "distinct_nontrivial": len(ctx.nontrivial) if isinstance(ctx.nontrivial, set) else ctx.nontrivial,
        "rule": ctx.rule,
        "samples": ctx.samples[:8] or [{"note": "no cases"}],
        "exhaustive": bool(ctx.exhaustive),
        "known_finding_hits": ctx.known_hits,
    }
    cov.update(ctx.extra)
    ev = {
        "property_id": ctx.pid,
        "tier": ctx.tier,
        "seed": ctx.seed,
        "level": level,
        "coverage": cov,
        "assumptions": ctx.assumptions,
        "wall_s": round(time.time() - ctx.t0, 2),
        "violations": len(ctx.violations),
    }
    with open(os.path.join(EVID, ctx.pid + ".json"), "w") as fh:
        json.dump(ev, fh, indent=1, default=str)
    for fid, n in sorted(ctx.known_hits.items()):
        if n:
            print("KNOWN-FINDING: property=%s %s (%d cases)" % (ctx.pid, fid, n))
    for what, path in ctx.violations[:20]:
        print("VIOLATION property=%s replay=%s  # %s" % (ctx.pid, path, what))
    ctx.log("done: states=%d traces=%d violations=%d" % (ctx.states, ctx.traces, len(ctx.violations)))
    tlc.cleanup()
    return 1 if ctx.violations else 0


# ---------------------------------------------------------------------------------------------
# float <-> exact domain
def ulp(x):
    return math.ulp(x) if x == x and not math.isinf(x) else 0.0


def close(a, b, n=4):
    return abs(a - b) <= n * max(ulp(a), ulp(b))


def thin(items, frac, seed, salt=""):
    """Deterministic thinning (seeded; depends only on seed, salt and enumeration order)."""
    if frac >= 1:
        return list(items)
    rng = random.Random("thin-%s-%s" % (seed, salt))
    return [it for it in items if rng.random() < frac]
