"""Shared plumbing: context, worker pools, evidence, findings, verdict output."""
import hashlib
import json
import math
import multiprocessing as mp
import os
import random
import sys
import time

from . import build, tlc

VERIF = os.path.dirname(os.path.dirname(os.path.abspath(__file__)))
# VERIF_OUT redirects evidence and replays (used when trying a seeded change against a scratch tree, so
# that the committed evidence of the real tree is not overwritten)
_OUT = os.environ.get("VERIF_OUT") or VERIF
EVID = os.path.join(_OUT, "evidence")
REPLAYS = os.path.join(_OUT, "replays")
FINDINGS = os.path.join(VERIF, "known_findings.jsonl")
NPROC = min(16, os.cpu_count() or 4)


class Ctx:
    def __init__(self, pid, tier, seed):
        self.pid = pid
        self.tier = tier
        self.seed = seed
        self.t0 = time.time()
        self.states = 0
        self.transitions = 0
        self.traces = 0
        self.evaluations = 0
        self.nontrivial = set()
        self.samples = []
        self.violations = []      # (what, replay_path)
        self.known_hits = {}      # finding id -> count
        self.notes = []
        self.assumptions = []
        self.exhaustive = False
        self.rule = ""
        self.extra = {}
        self.src = None

    @property
    def quick(self):
        return self.tier == "quick"

    def rng(self, salt=""):
        return random.Random("%s-%s-%s" % (self.pid, self.seed, salt))

    def add_mc(self, res):
        self.states += res.get("distinct", 0)
        self.transitions += res.get("generated", 0)

    def add_tv(self, res):
        self.states += res["states"]
        self.transitions += res["transitions"]
        self.traces += res["judged"]
        if res.get("canary"):
            # binding self-test: a corrupted copy of a real record was rejected at this clause
            self.extra.setdefault("binding_selftest_rejected_at", []).append(res["canary"])

    def log(self, msg):
        print("[%s %6.1fs] %s" % (self.pid, time.time() - self.t0, msg), flush=True)


# ---------------------------------------------------------------------------------------------
# worker pools: processes in which the freshly built dtaidistance is importable
def _init_worker(src, env):
    for k, v in env.items():
        os.environ[k] = v
    os.environ.setdefault("OMP_NUM_THREADS", "1")
    if src not in sys.path:
        sys.path.insert(0, src)
    if VERIF not in sys.path:
        sys.path.insert(0, VERIF)


def _call(args):
    modname, fname, item = args
    import importlib
    mod = importlib.import_module(modname)
    return getattr(mod, fname)(item)


class ItemTimeout(BaseException):
    """The code under test did not return within the per-item watchdog limit."""



def _run_batch(modname, fname, items):
    """Run the items one by one under a watchdog: a call that does not come back (an endless loop in the
    code under test) is reported like a crash of that item instead of hanging the whole check.  Python-level
    loops are interrupted by the exception; a loop inside C code is ended by killing the worker (second
    alarm), after which pool_map isolates the culprit."""
    import importlib
    import signal
    mod = importlib.import_module(modname)
    fn = getattr(mod, fname)
    fired = []

    def on_alarm(signum, frame):
        if fired:
            os._exit(70)
        fired.append(1)
        signal.setitimer(signal.ITIMER_REAL, 60)
        raise ItemTimeout()
    try:
        old = signal.signal(signal.SIGALRM, on_alarm)
    except ValueError:           # not in the main thread of the worker: no watchdog
        return [fn(it) for it in items]
    out = []
    try:
        for it in items:
            del fired[:]
            signal.setitimer(signal.ITIMER_REAL, float(os.environ.get("VERIF_ITEM_TIMEOUT", "300")))
            try:
                out.append(fn(it))
            except ItemTimeout:
                out.append({"id": it.get("id") if isinstance(it, dict) else None, "crashed": True, "timeout": True})
            finally:
                signal.setitimer(signal.ITIMER_REAL, 0)
    finally:
        signal.signal(signal.SIGALRM, old)
    return out


def _isolated(src, env, modname, fname, items):
    """Run items in a private process; on a crash (abort, segfault) bisect down to the culprit(s)."""
    from concurrent.futures import ProcessPoolExecutor
    from concurrent.futures.process import BrokenProcessPool
    ctx = mp.get_context("fork")
    try:
        with ProcessPoolExecutor(1, mp_context=ctx, initializer=_init_worker, initargs=(src, env)) as ex:
            return ex.submit(_run_batch, modname, fname, items).result()
    except BrokenProcessPool:
        if len(items) == 1:
            return [{"id": items[0].get("id"), "crashed": True}]
        h = len(items) // 2
        return _isolated(src, env, modname, fname, items[:h]) + _isolated(src, env, modname, fname, items[h:])


def pool_map(src, modname, fname, items, env=None, nproc=None, chunksize=100):
    """Run harness.<modname>.<fname>(item) for every item in fresh worker processes.

    Crash-robust: a worker killed by the code under test (assert abort, segfault) yields
    {"id":..., "crashed": True} for exactly the culprit items.
    """
    from concurrent.futures import ProcessPoolExecutor, ThreadPoolExecutor, as_completed
    from concurrent.futures.process import BrokenProcessPool
    items = list(items)
    if not items:
        return []
    env = env or {}
    nproc = nproc or NPROC
    batches = [items[i:i + chunksize] for i in range(0, len(items), chunksize)]
    results = {}
    ctx = mp.get_context("fork")
    ex = ProcessPoolExecutor(nproc, mp_context=ctx, initializer=_init_worker, initargs=(src, env))
    futs = {ex.submit(_run_batch, modname, fname, b): bi for bi, b in enumerate(batches)}
    for f in as_completed(futs):
        try:
            results[futs[f]] = f.result()
        except BrokenProcessPool:
            pass
    ex.shutdown(wait=True, cancel_futures=True)
    todo = [bi for bi in range(len(batches)) if bi not in results]
    if todo:
        with ThreadPoolExecutor(nproc) as tex:
            fs = {tex.submit(_isolated, src, env, modname, fname, batches[bi]): bi for bi in todo}
            for f in as_completed(fs):
                results[fs[f]] = f.result()
    out = []
    for bi in range(len(batches)):
        out += results[bi]
    return out


# ---------------------------------------------------------------------------------------------
# findings (read-only at run time)
def load_findings(pid):
    known, fixed = [], []
    if os.path.exists(FINDINGS):
        for line in open(FINDINGS):
            line = line.strip()
            if not line or line.startswith("#"):
                continue
            f = json.loads(line)
            if f.get("property") != pid:
                continue
            (known if f.get("status") == "known" else fixed).append(f)
    return known, fixed


def write_replay(ctx, name, payload):
    os.makedirs(REPLAYS, exist_ok=True)
    p = os.path.join(REPLAYS, "%s-%s.json" % (ctx.pid, name))
    with open(p, "w") as fh:
        json.dump(payload, fh, indent=1, default=str)
    return p


def finish(ctx, level="model_checking"):
    """Write evidence, print KNOWN-FINDING / VIOLATION lines, return exit code."""
    os.makedirs(EVID, exist_ok=True)
    cov = {
        "states": ctx.states,
        "transitions": ctx.transitions,
        "traces_validated_against_impl": ctx.traces,
        "evaluations": ctx.evaluations,
        "distinct_nontrivial": len(ctx.nontrivial) if isinstance(ctx.nontrivial, set) else ctx.nontrivial,
        "rule": ctx.rule,
        "samples": ctx.samples[:8] or [{"note": "no cases"}],
        "exhaustive": bool(ctx.exhaustive),
        "known_finding_hits": ctx.known_hits,
    }
    cov.update(ctx.extra)
    ev = {
        "property_id": ctx.pid,
        "tier": ctx.tier,
        "seed": ctx.seed,
        "level": level,
        "coverage": cov,
        "assumptions": ctx.assumptions,
        "wall_s": round(time.time() - ctx.t0, 2),
        "violations": len(ctx.violations),
    }
    # extensions beyond the listed properties (ids X..) keep their evidence apart from evidence/<property>.json
    evdir = EVID + "_ext" if ctx.pid.startswith("X") else EVID
    os.makedirs(evdir, exist_ok=True)
    with open(os.path.join(evdir, ctx.pid + ".json"), "w") as fh:
        json.dump(ev, fh, indent=1, default=str)
    for fid, n in sorted(ctx.known_hits.items()):
        if n:
            print("KNOWN-FINDING: property=%s %s (%d cases)" % (ctx.pid, fid, n))
    for what, path in ctx.violations[:20]:
        print("VIOLATION property=%s replay=%s  # %s" % (ctx.pid, path, what))
    ctx.log("done: states=%d traces=%d violations=%d" % (ctx.states, ctx.traces, len(ctx.violations)))
    tlc.cleanup()
    return 1 if ctx.violations else 0


# ---------------------------------------------------------------------------------------------
# float <-> exact domain
def ulp(x):
    return math.ulp(x) if x == x and not math.isinf(x) else 0.0


def close(a, b, n=4):
    return abs(a - b) <= n * max(ulp(a), ulp(b))


def thin(items, frac, seed, salt=""):
    """Deterministic thinning (seeded; depends only on seed, salt and enumeration order)."""
    if frac >= 1:
        return list(items)
    rng = random.Random("thin-%s-%s" % (seed, salt))
    return [it for it in items if rng.random() < frac]
