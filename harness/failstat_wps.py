import json, collections, sys, re
F = json.load(open(sys.argv[1]))
maxshow = int(sys.argv[2]) if len(sys.argv) > 2 else 6
def key(cl):
    return re.sub(r"\[\d+:\d+,\d+:\d+\]", "[..]", cl)
cnt = collections.Counter(key(f['clause']) for f in F)
for k, v in cnt.most_common(20):
    print(v, k)
seen = set()
for f in F:
    k = key(f['clause'])
    if k in seen:
        continue
    seen.add(k)
    c = f['case']; rec = c['_rec']
    print('----', f['clause'], 's1', [p[0] if len(p) == 1 else p for p in c['s1']], 's2', [p[0] if len(p) == 1 else p for p in c['s2']], {k: c[k] for k in ('w', 'pen', 'ms', 'md', 'psi', 'inner', 'S')})
    for i, r in enumerate(rec['routes']):
        print('   ', r, rec['d'][i], rec.get('mat', rec.get('paths'))[i])
    for sl in rec.get('slices', []):
        print('    ', sl['route'], sl['mat'])
    if len(seen) > maxshow:
        break
