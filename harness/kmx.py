"""Worker-side execution of DBA k-means fits (C16)."""
import math
import random

from . import dtwx

_np = None


def np():
    global _np
    if _np is None:
        import numpy
        _np = numpy
    return _np


def dense_ranks(row):
    """Order and ties preserved exactly; values that differ by rounding only (<= 1e-9 relative) are tied."""
    vals = sorted(set(row))
    groups = []
    for v in vals:
        if groups and (math.isinf(v) and math.isinf(groups[-1][-1]) or
                       (not math.isinf(v) and abs(v - groups[-1][-1]) <= 1e-9 * max(1.0, abs(v)))):
            groups[-1].append(v)
        else:
            groups.append([v])
    rk = {}
    for i, g in enumerate(groups):
        for v in g:
            rk[v] = i
    return [rk[v] for v in row]


def run_c16(it):
    from dtaidistance import dtw, dtw_ndim
    from dtaidistance.clustering.kmeans import KMeans
    nd = len(it["series"][0][0])
    if nd == 1:
        series = [np().array([p[0] for p in s], dtype=np().double) for s in it["series"]]
    else:
        series = [np().array(s, dtype=np().double) for s in it["series"]]
    if it.get("matrix") and len({len(s) for s in series}) == 1:
        data = np().array(series)
    else:
        data = series
    fits = []
    all_series, all_data = series, data
    model = None
    for f in it["fits"]:
        # a later fit may run on the SAME model object, on one series fewer: nothing of the earlier fit may survive
        series = all_series[:-1] if f.get("drop_last") else all_series
        data = all_data[:-1] if f.get("drop_last") else all_data
        opts = {}
        if f["window"]:
            opts["window"] = f["window"]
        if f["penalty"]:
            opts["penalty"] = float(f["penalty"])
        if f.get("psi") is not None:
            opts["psi"] = tuple(f["psi"]) if isinstance(f["psi"], list) else f["psi"]
        if f["use_c"]:
            opts["use_c"] = True
        route = "fit[k=%d,seed=%d,init=%s,drop=%s,%s%s%s%s%s]" % (f["k"], f["seed"], f["init"], f["drop"],
                                                                 "c" if f["use_c"] else "py", ",mp" if f["parallel"] else "",
                                                                 ",psi=%s" % (f["psi"],) if f.get("psi") is not None else "",
                                                                 ",same-object" if f.get("reuse") else "",
                                                                 ",one-series-fewer" if f.get("drop_last") else "")
        calls = []

        def monitor(cd, final):
            calls.append((bool(final), [int(c) for c, _d in cd]))
            return True
        try:
            np().random.seed(f["seed"])
            random.seed(f["seed"])
            kw = {"initialize_with_kmeanspp": f["init"] == "kmeans++", "initialize_with_kmedoids": False}
            if f["init"] == "sample":
                kw["initialize_with_kmeanspp"] = True
                kw["initialize_sample_size"] = 1
            if not (f.get("reuse") and model is not None):
                model = KMeans(k=f["k"], max_it=f["maxit"], max_dba_it=f["dbait"], drop_stddev=f["drop"],
                               dists_options=opts, show_progress=False, **kw)
            res, performed = model.fit(data, use_parallel=f["parallel"], monitor_distances=monitor if f["monitor"] else None)
            means = list(model.means)
            dfun = dtw.distance if nd == 1 else dtw_ndim.distance
            dopts = {k2: v for k2, v in opts.items() if k2 != "use_c"}
            ranks = []
            for s in series:
                row = [float(dfun(s, np().asarray(m, dtype=np().double), **dopts)) for m in means]
                ranks.append(dense_ranks(row))
            result = [[int(k2), sorted(int(x) for x in v)] for k2, v in sorted(res.items())]
            finals = [c for c in calls if c[0]]
            finalsame = True
            if f["monitor"] and finals:
                fc = finals[-1][1]
                finalsame = all(i in res.get(fc[i], set()) for i in range(len(series))) and calls[-1][0]
            fits.append({"route": route, "raised": False, "k": f["k"], "n": len(series), "nmeans": len(means),
                         "result": result, "ranks": ranks, "performed": int(performed), "maxit": f["maxit"],
                         "monitored": bool(f["monitor"]), "calls": len([c for c in calls if not c[0]]),
                         "finals": len(finals), "finalsame": bool(finalsame)})
        except Exception as exc:
            fits.append({"route": route + ":" + type(exc).__name__ + ":" + str(exc)[:60].replace('"', "'"),
                         "raised": True, "k": f["k"], "n": len(series), "nmeans": 0, "result": [], "ranks": [],
                         "performed": 0, "maxit": f["maxit"], "monitored": False, "calls": 0, "finals": 0,
                         "finalsame": False})
    return {"id": it["id"], "fits": fits, "routes": [x["route"] for x in fits]}
