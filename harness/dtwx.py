"""Worker-side execution of DTW cases against the real dtaidistance (imported from the fresh build).

A case (dict) mirrors the TLA+ record of spec/DTWCore.tla plus harness-only fields:
  S      : scale; series values v stand for v / S
  prune  : use_pruning
Functions here convert to user-level arguments, call the library and convert results back
to the exact internal domain.
"""
import array
import math
import os

INF_OBS, OFF_LATTICE, RAISED, MARKED, ABSENT = -1, -2, -3, -4, -9

_np = None


def np():
    global _np
    if _np is None:
        import numpy
        _np = numpy
    return _np


def _custom_inner():
    from dtaidistance import innerdistance

    class Cu(innerdistance.CustomInnerDist):
        @staticmethod
        def inner_dist(x, y):
            return 2 * abs(x - y)

        @staticmethod
        def result(x):
            return x / 2

        @staticmethod
        def inner_val(x):
            return 2 * x
    return Cu


def ndim_of(c):
    return len(c["s1"][0])


def series(c, which, kind="list", flat=None):
    """User-level series of case c in a container kind."""
    S = c["S"]
    pts = c[which]
    nd = len(pts[0])
    if flat is None:
        flat = (nd == 1 and not c.get("use_ndim", False))
    if flat:
        vals = [p[0] / S for p in pts]
    else:
        vals = [[x / S for x in p] for p in pts]
    if kind == "list":
        return vals
    if kind == "tuple":
        return tuple(vals) if flat else tuple(tuple(p) for p in vals)
    if kind == "array":
        assert flat
        return array.array("d", vals)
    if kind == "numpy":
        return np().array(vals, dtype=np().double)
    if kind == "numpy_strided":
        a = np().array(vals, dtype=np().double)
        if flat:
            b = np().zeros(2 * len(vals))
            b[::2] = a
            return b[::2]
        b = np().zeros((2 * a.shape[0], a.shape[1]))
        b[::2, :] = a
        return b[::2, :]
    if kind == "numpy_f":
        a = np().array(vals, dtype=np().double)
        return np().asfortranarray(a)
    raise ValueError(kind)


def settings(c, psi_int=False, for_c=False, none_as_zero=False):
    """User-level keyword settings for case c."""
    S = c["S"]
    kw = {}
    if c["w"] != 0:
        kw["window"] = c["w"]
    elif none_as_zero:
        kw["window"] = 0
    if c["pen"] != 0:
        kw["penalty"] = c["pen"] / S
    elif none_as_zero:
        kw["penalty"] = 0
    if c["ms"] != 0:
        kw["max_step"] = c["ms"] / S
    elif none_as_zero:
        kw["max_step"] = 0
    if c["md"] != 0:
        kw["max_dist"] = max_dist_user(c)
    elif none_as_zero:
        kw["max_dist"] = 0
    if c["mld"] != -1:
        kw["max_length_diff"] = c["mld"]
    elif none_as_zero:
        kw["max_length_diff"] = 0
    psi = tuple(c["psi"])
    if psi != (0, 0, 0, 0):
        if psi_int and len(set(psi)) == 1:
            kw["psi"] = psi[0]
        else:
            kw["psi"] = psi
    elif none_as_zero:
        kw["psi"] = 0
    if c["inner"] == "eu":
        kw["inner_dist"] = "euclidean"
    elif c["inner"] == "cu":
        kw["inner_dist"] = _custom_inner()
    if c.get("prune"):
        kw["use_pruning"] = True
    if ndim_of(c) > 1 or c.get("use_ndim"):
        kw["use_ndim"] = True
    return kw


def max_dist_user(c):
    """The user-level max_dist whose internal threshold lies strictly between attainable costs."""
    S = c["S"]
    md = c["md"]
    if c["inner"] == "sq":
        return (md / 2) / S          # squared by the library: (md/2)^2 / S^2, exact
    if c["inner"] == "eu":
        return (md / 2) / S
    return (md / 2) / S              # custom: inner_val doubles it


def enc_cost(c, d):
    """Result of a distance routine -> internal-domain integer (or a marker)."""
    if d is None:
        return ABSENT
    try:
        d = float(d)
    except Exception:
        return OFF_LATTICE
    if d != d:
        return OFF_LATTICE
    if math.isinf(d):
        return INF_OBS if d > 0 else OFF_LATTICE
    S = c["S"]
    if d < 0:
        return OFF_LATTICE
    if c["inner"] == "sq":
        k = round(d * d * S * S)
        back = math.sqrt(k / (S * S))
    elif c["inner"] == "eu":
        k = round(d * S)
        back = k / S
    else:
        k = round(2 * d * S)
        back = (k / 2) / S
    if abs(back - d) <= 4 * max(math.ulp(d), math.ulp(back)) and k < 90000000:
        return int(k)
    return OFF_LATTICE


def enc_cell(c, v, int_repr=False):
    """Matrix cell -> internal integer; -1.0 marks become MARKED."""
    v = float(v)
    if v == -1.0:
        return MARKED
    if int_repr:
        if v != v:
            return OFF_LATTICE
        if math.isinf(v):
            return INF_OBS if v > 0 else OFF_LATTICE
        S = c["S"]
        x = v * (S * S if c["inner"] == "sq" else S)
        k = round(x)
        if abs(x - k) <= 1e-9 and 0 <= k < 90000000:
            return int(k)
        return OFF_LATTICE
    return enc_cost(c, v)


class Raised:
    def __init__(self, msg):
        self.msg = msg

    def __repr__(self):
        return "Raised(%s)" % self.msg


def is_raised(r):
    return isinstance(r, Raised)


def guarded(fn):
    try:
        return fn()
    except Exception as exc:  # the library raised where the property promises a value
        return Raised("%s: %s" % (type(exc).__name__, str(exc)[:200]))


def enc_guarded(c, fn):
    r = guarded(fn)
    if is_raised(r):
        return RAISED
    return enc_cost(c, r)


def tla_case(c):
    """The part of the case that the TLA+ specification sees."""
    return {"s1": c["s1"], "s2": c["s2"], "inner": c["inner"], "w": c["w"], "pen": c["pen"],
            "ms": c["ms"], "md": c["md"], "mld": c["mld"], "psi": list(c["psi"])}


# ---------------------------------------------------------------------------------------------
# C01: pure-Python distance through several container kinds
def run_c01(c):
    from dtaidistance import dtw
    nonp = os.environ.get("DTAIDISTANCE_TESTWITHOUTNUMPY") == "1"
    routes, obs = [], []
    if nonp:
        kinds = ["list", "array"]
    else:
        kinds = ["list", "array", "numpy"]
    for kind in kinds:
        a = series(c, "s1", kind)
        b = series(c, "s2", kind)
        routes.append(("nonumpy:" if nonp else "") + "dtw.distance[" + kind + "]")
        obs.append(enc_guarded(c, lambda: dtw.distance(a, b, **settings(c))))
    psi = tuple(c["psi"])
    if len(set(psi)) == 1 and psi[0] != 0:
        a = series(c, "s1", "list")
        b = series(c, "s2", "list")
        routes.append(("nonumpy:" if nonp else "") + "dtw.distance[psi-int]")
        obs.append(enc_guarded(c, lambda: dtw.distance(a, b, **settings(c, psi_int=True))))
    return {"id": c["id"], "routes": routes, "obs": obs}


# ---------------------------------------------------------------------------------------------
# C02: every route into the C engine (and the Python engine as the reference)
def _native_dist(c, fn_name=None):
    from . import native
    lib = native.lib("plain")
    nd = ndim_of(c)
    a = native.flat_series(c, "s1")
    b = native.flat_series(c, "s2")
    A = native.Buf(len(a), fill=a)
    B = native.Buf(len(b), fill=b)
    st = lib.settings(c)
    try:
        if nd == 1 and not c.get("use_ndim"):
            d = lib.L.dtw_distance(A.ptr, len(c["s1"]), B.ptr, len(c["s2"]), st)
        else:
            d = lib.L.dtw_distance_ndim(A.ptr, len(c["s1"]), B.ptr, len(c["s2"]), nd, st)
        A.check("s1")
        B.check("s2")
        if A.tolist() != a or B.tolist() != b:
            return float("nan")
        return d
    finally:
        A.free()
        B.free()


def run_c02(c):
    from dtaidistance import dtw, dtw_cc, dtw_ndim
    nd = ndim_of(c)
    use_ndim = nd > 1 or c.get("use_ndim", False)
    routes, obs = [], []

    raws = []

    def add(name, fn):
        routes.append(name)
        r = guarded(fn)
        if is_raised(r):
            obs.append(RAISED)
            raws.append(None)
            return
        k = enc_cost(c, r)
        if k == OFF_LATTICE and raws and obs[0] == OFF_LATTICE and raws[0] is not None:
            # not an exact-domain value: agreement with the reference is decided on the floats
            try:
                a, b = float(r), float(raws[0])
                same = (a == b) or abs(a - b) <= 4 * max(math.ulp(a), math.ulp(b))
            except Exception:
                same = False
            k = OFF_LATTICE if same else -6
        obs.append(k)
        raws.append(r)

    kw = settings(c)
    kwz = settings(c, none_as_zero=True)
    kwz.pop("use_ndim", None)
    if "inner_dist" not in kwz:
        kwz["inner_dist"] = "squared euclidean"
    a_l, b_l = series(c, "s1", "list"), series(c, "s2", "list")
    a_n, b_n = series(c, "s1", "numpy"), series(c, "s2", "numpy")
    if use_ndim:
        add("py:dtw.distance", lambda: dtw.distance(a_n, b_n, **kw))
        kwn = {k: v for k, v in kw.items() if k != "use_ndim"}
        add("py:dtw_ndim.distance", lambda: dtw_ndim.distance(a_n, b_n, **kwn))
        add("c:dtw_ndim.distance[use_c]", lambda: dtw_ndim.distance(a_n, b_n, use_c=True, **kwn))
        add("c:dtw_ndim.distance_fast", lambda: dtw_ndim.distance_fast(a_n, b_n, **kwn))
        add("c:dtw.distance_fast[use_ndim]", lambda: dtw.distance_fast(a_n, b_n, **kw))
        add("c:dtw_cc.distance_ndim", lambda: dtw_cc.distance_ndim(a_n, b_n, **kwz))
        if c.get("prune"):
            add("c:dtw_ndim.distance_matrix[use_c]",
                lambda: dtw_ndim.distance_matrix([a_n, b_n], parallel=False, compact=True, use_c=True, **kwn)[0])
        else:
            add("c:dtw_ndim.distance_matrix_fast",
                lambda: dtw_ndim.distance_matrix_fast([a_n, b_n], parallel=False, compact=True, **kwn)[0])
    else:
        a_a, b_a = series(c, "s1", "array"), series(c, "s2", "array")
        add("py:dtw.distance", lambda: dtw.distance(a_l, b_l, **kw))
        add("c:dtw.distance[use_c,array]", lambda: dtw.distance(a_a, b_a, use_c=True, **kw))
        add("c:dtw.distance_fast[numpy]", lambda: dtw.distance_fast(a_n, b_n, **kw))
        add("c:dtw_cc.distance[0=off]", lambda: dtw_cc.distance(a_a, b_a, **kwz))
        add("c:dtw.distance_matrix_fast",
            lambda: dtw.distance_matrix_fast([a_n, b_n], parallel=False, compact=True, **kw)[0])
        psi = tuple(c["psi"])
        if len(set(psi)) == 1 and psi[0] != 0:
            add("c:dtw.distance_fast[psi-int]", lambda: dtw.distance_fast(a_n, b_n, **settings(c, psi_int=True)))
    add("native:dtw_distance" + ("_ndim" if use_ndim else ""), lambda: _native_dist(c))
    return {"id": c["id"], "routes": routes, "obs": obs}


# ---------------------------------------------------------------------------------------------
# C03: thresholds (max_dist) and pruning through every distance-returning routine of both engines
def run_c03(c):
    from dtaidistance import dtw, dtw_ndim
    nd = ndim_of(c)
    use_ndim = nd > 1
    routes, obs = [], []

    def add(name, fn):
        routes.append(name)
        obs.append(enc_guarded(c, fn))

    kw = settings(c)
    a_n, b_n = series(c, "s1", "numpy"), series(c, "s2", "numpy")
    if use_ndim:
        kwn = {k: v for k, v in kw.items() if k != "use_ndim"}
        add("py:dtw_ndim.distance", lambda: dtw_ndim.distance(a_n, b_n, **kwn))
        add("c:dtw_ndim.distance_fast", lambda: dtw_ndim.distance_fast(a_n, b_n, **kwn))
        add("py:dtw_ndim.warping_paths", lambda: dtw_ndim.warping_paths(a_n, b_n, **kwn)[0])
        add("c:dtw_ndim.warping_paths_fast", lambda: dtw_ndim.warping_paths_fast(a_n, b_n, **kwn)[0])
        add("py:dtw_ndim.distance_matrix",
            lambda: dtw_ndim.distance_matrix([a_n, b_n], compact=True, **kwn)[0])
        add("c:dtw_ndim.distance_matrix[use_c]",
            lambda: dtw_ndim.distance_matrix([a_n, b_n], compact=True, use_c=True, **kwn)[0])
    else:
        a_l, b_l = series(c, "s1", "list"), series(c, "s2", "list")
        add("py:dtw.distance", lambda: dtw.distance(a_l, b_l, **kw))
        add("c:dtw.distance_fast", lambda: dtw.distance_fast(a_n, b_n, **kw))
        add("py:dtw.warping_paths", lambda: dtw.warping_paths(a_n, b_n, **kw)[0])
        add("c:dtw.warping_paths_fast", lambda: dtw.warping_paths_fast(a_n, b_n, **kw)[0])
        add("c:dtw.warping_paths_fast[compact]", lambda: dtw.warping_paths_fast(a_n, b_n, compact=True, **kw)[0])
        add("py:dtw.distance_matrix", lambda: dtw.distance_matrix([a_l, b_l], compact=True, **kw)[0])
        add("c:dtw.distance_matrix_fast",
            lambda: dtw.distance_matrix_fast([a_n, b_n], parallel=False, compact=True, **kw)[0])
        add("native:dtw_distance", lambda: _native_dist(c))
    return {"id": c["id"], "routes": routes, "obs": obs}


# ---------------------------------------------------------------------------------------------
# C04: accumulated-cost matrices of both engines and all layouts
def enc_matrix(c, m, int_repr):
    try:
        rows = [[enc_cell(c, v, int_repr) for v in row] for row in m]
    except Exception:
        return [[OFF_LATTICE]]
    return rows


def _enc_d(c, d, int_repr):
    if int_repr:
        return enc_cell(c, d, True) if d != -1.0 else OFF_LATTICE
    return enc_cost(c, d)


def _native_wps(c, psi_neg, int_repr, slices=()):
    """Compact buffer of exactly the advertised size, expanded with dtw_expand_wps (and slices)."""
    from . import native
    lib = native.lib("plain")
    nd = ndim_of(c)
    l1, l2 = len(c["s1"]), len(c["s2"])
    a = native.flat_series(c, "s1")
    b = native.flat_series(c, "s2")
    A = native.Buf(len(a), fill=a)
    B = native.Buf(len(b), fill=b)
    st = lib.settings(c)
    n = lib.L.dtw_settings_wps_length(l1, l2, st)
    W = native.Buf(n, fill=float("nan"))
    F = native.Buf((l1 + 1) * (l2 + 1), fill=float("nan"))
    bufs = [A, B, W, F]
    try:
        d = lib.L.dtw_warping_paths_ndim(W.ptr, A.ptr, l1, B.ptr, l2, True, int_repr, psi_neg, nd, st)
        lib.L.dtw_expand_wps(W.ptr, F.ptr, l1, l2, st)
        for x in bufs:
            x.check("wps")
        full = F.tolist()
        mat = [full[i * (l2 + 1):(i + 1) * (l2 + 1)] for i in range(l1 + 1)]
        outs = []
        for (rb, re, cb, ce) in slices:
            Sl = native.Buf((re - rb) * (ce - cb), fill=float("nan"))
            lib.L.dtw_expand_wps_slice(W.ptr, Sl.ptr, l1, l2, rb, re, cb, ce, st)
            try:
                Sl.check("slice")
                W.check("wps")
                fl = Sl.tolist()
                outs.append([fl[i * (ce - cb):(i + 1) * (ce - cb)] for i in range(re - rb)])
            except native.CanaryError:
                outs.append([["canary"]])      # out-of-bounds write: judged as a malformed slice
            Sl.free()
        return d, mat, outs
    finally:
        for x in bufs:
            x.free()


def pick_slices(c, rng_seed):
    import random
    rng = random.Random("sl-%s" % rng_seed)
    l1, l2 = len(c["s1"]), len(c["s2"])
    out = [(0, l1 + 1, 0, l2 + 1)]   # the full range first (judged before sub-ranges)
    rb = rng.randint(0, l1)
    re = rng.randint(rb + 1, l1 + 1)
    cb = rng.randint(0, l2)
    ce = rng.randint(cb + 1, l2 + 1)
    out.append((rb, re, cb, ce))
    return out


def run_c04(c):
    from dtaidistance import dtw
    nd = ndim_of(c)
    use_ndim = nd > 1
    kw = settings(c)
    a, b = series(c, "s1", "numpy"), series(c, "s2", "numpy")
    routes, mats, ds, negs = [], [], [], []

    def add(name, fn, neg, int_repr):
        routes.append(name)
        negs.append(bool(neg))
        r = guarded(fn)
        if is_raised(r):
            mats.append([])
            ds.append(RAISED)
            return
        try:
            d, m = r[0], r[1]
        except Exception:
            mats.append([])
            ds.append(RAISED)
            return
        mats.append(enc_matrix(c, m, int_repr))
        ds.append(_enc_d(c, d, int_repr))

    add("py:warping_paths", lambda: dtw.warping_paths(a, b, **kw), True, False)
    add("py:warping_paths[int,noneg]", lambda: dtw.warping_paths(a, b, psi_neg=False, keep_int_repr=True, **kw),
        False, True)
    add("c:warping_paths_fast", lambda: dtw.warping_paths_fast(a, b, **kw), True, False)
    add("c:warping_paths_fast[int,noneg]",
        lambda: dtw.warping_paths_fast(a, b, psi_neg=False, keep_int_repr=True, **kw), False, True)
    # the same numbers as non-contiguous views (every second element of a larger array)
    a2, b2 = series(c, "s1", "numpy_strided"), series(c, "s2", "numpy_strided")
    add("c:warping_paths_fast[strided views]", lambda: dtw.warping_paths_fast(a2, b2, **kw), True, False)
    add("c:warping_paths[use_c]", lambda: dtw.warping_paths(a, b, use_c=True, **kw), True, False)
    add("c:warping_paths[use_c,int]", lambda: dtw.warping_paths(a, b, use_c=True, keep_int_repr=True, **kw),
        True, True)
    sls = pick_slices(c, c["id"])
    slices = []
    r = guarded(lambda: _native_wps(c, True, False, sls))
    routes.append("native:compact+expand")
    negs.append(True)
    if is_raised(r):
        mats.append([])
        ds.append(RAISED)
    else:
        d, m, outs = r
        mats.append(enc_matrix(c, m, False))
        ds.append(_enc_d(c, d, False))
        for (rb, re, cb, ce), sm in zip(sls, outs):
            slices.append({"route": "native:expand_slice[%d:%d,%d:%d]" % (rb, re, cb, ce), "r": [rb, re, cb, ce],
                           "neg": True, "mat": enc_matrix(c, sm, False)})
    return {"id": c["id"], "routes": routes, "mat": mats, "d": ds, "neg": negs, "slices": slices}


# ---------------------------------------------------------------------------------------------
# C05: every route that reports a warping path
def enc_path(p):
    try:
        return [[int(a), int(b)] for (a, b) in p]
    except Exception:
        return [[-1, -1]]


def _native_path(c, customstart=None):
    from . import native
    lib = native.lib("plain")
    nd = ndim_of(c)
    l1, l2 = len(c["s1"]), len(c["s2"])
    a = native.flat_series(c, "s1")
    b = native.flat_series(c, "s2")
    A = native.Buf(len(a), fill=a)
    B = native.Buf(len(b), fill=b)
    I1 = native.Buf(l1 + l2, native.idx_t, fill=-7)
    I2 = native.Buf(l1 + l2, native.idx_t, fill=-7)
    import ctypes
    n = native.idx_t(0)
    st = lib.settings(c)
    try:
        d = lib.L.dtw_warping_path_ndim(A.ptr, l1, B.ptr, l2, I1.ptr, I2.ptr, ctypes.byref(n), nd, st)
        for x in (A, B, I1, I2):
            x.check("path")
        k = n.value
        if k < 0 or k > l1 + l2:
            return d, [[-1, -1]]
        p = [(I1.arr[i], I2.arr[i]) for i in range(k)]
        p.reverse()
        return d, p
    finally:
        for x in (A, B, I1, I2):
            x.free()


def run_c05(c):
    from dtaidistance import dtw, dtw_cc, dtw_ndim
    nd = ndim_of(c)
    use_ndim = nd > 1
    kw = settings(c)
    a, b = series(c, "s1", "numpy"), series(c, "s2", "numpy")
    routes, paths, ds = [], [], []

    def add(name, fn, with_d=False):
        routes.append(name)
        r = guarded(fn)
        if is_raised(r):
            paths.append([[-3, -3]])
            ds.append(ABSENT)
            return
        if with_d:
            p, d = r
            ds.append(enc_cost(c, d))
        else:
            p = r
            ds.append(ABSENT)
        paths.append(enc_path(p))

    def bp_py():
        d, m = dtw.warping_paths(a, b, **kw)
        return dtw.best_path(m), d

    def bp_py_int():
        s = dtw.DTWSettings(**kw)
        d, m = dtw.warping_paths(a, b, keep_int_repr=True, **kw)
        return dtw.best_path(m, penalty=s.adj_penalty)

    def bp_c():
        d, m = dtw.warping_paths_fast(a, b, **kw)
        return dtw.best_path(m), d

    def bp2():
        d, m = dtw.warping_paths(a, b, **kw)
        return dtw.best_path2(m)

    def bp_c_int():
        s = dtw.DTWSettings(**kw)
        d, m = dtw.warping_paths_fast(a, b, keep_int_repr=True, **kw)
        return dtw.best_path(m, penalty=s.adj_penalty)

    if c["pen"] == 0:
        # best_path without its penalty argument and best_path2 are only specified for penalty-free matrices
        add("py:best_path(warping_paths)", bp_py, True)
        add("py:best_path(warping_paths_fast)", bp_c, True)
        add("py:best_path2", bp2)
    add("py:best_path(int repr, penalty)", bp_py_int)
    add("py:best_path(C int repr, penalty)", bp_c_int)
    add("py:warping_path", lambda: dtw.warping_path(a, b, include_distance=True, **kw), True)
    if use_ndim:
        kwn = {k: v for k, v in kw.items() if k != "use_ndim"}
        add("py:dtw_ndim.warping_path", lambda: dtw_ndim.warping_path(a, b, **kwn))
        kwz = settings(c, none_as_zero=True)
        kwz.pop("use_ndim", None)
        add("c:dtw_cc.warping_path_ndim",
            lambda: dtw_cc.warping_path_ndim(a, b, nd, include_distance=True, **kwz), True)
    else:
        kwf = {k: v for k, v in kw.items() if k in ("window", "max_dist", "max_step", "max_length_diff", "penalty", "psi",
                                                    "inner_dist")}
        add("c:warping_path_fast", lambda: dtw.warping_path_fast(a, b, include_distance=True, **kwf), True)

        def bpc():
            d, m = dtw.warping_paths_fast(a, b, compact=True, keep_int_repr=True, **kw)
            s = dtw.DTWSettings.for_dtw(a, b, **kw)
            return dtw_cc.best_path_compact(m, len(a), len(b), **s.c_kwargs())
        add("c:best_path_compact", bpc)
        if not any(c["psi"]):
            add("py:warp", lambda: dtw.warp(a, b, **kw)[1])   # warp needs every index of to_s aligned
    add("native:dtw_warping_path", lambda: tuple(reversed(_native_path(c))), True)
    return {"id": c["id"], "routes": routes, "paths": paths, "d": ds}


# ---------------------------------------------------------------------------------------------
# C09: bounds
def enc_lb(c, v):
    return enc_cost(c, v)


def run_c09(c):
    from dtaidistance import dtw, dtw_cc, dtw_ndim, ed, ed_cc
    from . import native
    nd = ndim_of(c)
    kw = settings(c)
    lb, lbr, edv, edr, ub, ubr = [], [], [], [], [], []

    def add(lst, names, name, fn):
        names.append(name)
        lst.append(enc_guarded(c, fn))

    inner = "euclidean" if c["inner"] == "eu" else "squared euclidean"
    icode = 1 if c["inner"] == "eu" else 0
    a_n, b_n = series(c, "s1", "numpy"), series(c, "s2", "numpy")
    lib = native.lib("plain")
    if nd == 1:
        a_l, b_l = series(c, "s1", "list"), series(c, "s2", "list")
        a_a, b_a = series(c, "s1", "array"), series(c, "s2", "array")
        wkw = {k: v for k, v in kw.items() if k in ("window", "inner_dist")}
        add(lb, lbr, "py:dtw.lb_keogh", lambda: dtw.lb_keogh(a_l, b_l, **wkw))
        add(lb, lbr, "py:dtw.lb_keogh[numpy]", lambda: dtw.lb_keogh(a_n, b_n, **wkw))
        add(lb, lbr, "c:dtw.lb_keogh[use_c]", lambda: dtw.lb_keogh(a_a, b_a, use_c=True, **wkw))
        add(lb, lbr, "c:dtw_cc.lb_keogh", lambda: dtw_cc.lb_keogh(a_n, b_n, window=c["w"], inner_dist=inner))
        add(edv, edr, "py:ed.distance", lambda: ed.distance(a_l, b_l, inner_dist=inner))
        add(edv, edr, "py:dtw.ub_euclidean", lambda: dtw.ub_euclidean(a_l, b_l, inner_dist=inner))
        add(edv, edr, "c:ed.distance_fast", lambda: ed.distance_fast(a_n, b_n, inner_dist=inner))
        add(edv, edr, "c:ed_cc.distance", lambda: ed_cc.distance(a_a, b_a, icode))
        if icode == 0:
            add(edv, edr, "c:dtw_cc.ub_euclidean", lambda: dtw_cc.ub_euclidean(a_a, b_a))
        add(ub, ubr, "py:distance[only_ub]", lambda: dtw.distance(a_l, b_l, only_ub=True, **kw))
        add(ub, ubr, "c:distance_fast[only_ub]", lambda: dtw.distance_fast(a_n, b_n, only_ub=True, **kw))
        add(ub, ubr, "c:distance[only_ub,use_c]", lambda: dtw.distance(a_a, b_a, only_ub=True, use_c=True, **kw))
        dref = enc_guarded(c, lambda: dtw.distance(a_l, b_l, **kw))
        kw0 = {k: v for k, v in kw.items() if k != "penalty"}
        d0 = enc_guarded(c, lambda: dtw.distance(a_l, b_l, **kw0)) if len(c["s1"]) != len(c["s2"]) else dref
    else:
        kwn = {k: v for k, v in kw.items() if k != "use_ndim"}
        add(edv, edr, "py:ed.distance[ndim]", lambda: ed.distance(a_n, b_n, inner_dist=inner, use_ndim=True))
        add(edv, edr, "py:dtw_ndim.ub_euclidean", lambda: dtw_ndim.ub_euclidean(a_n, b_n, inner_dist=inner))
        add(edv, edr, "c:ed_cc.distance_ndim", lambda: ed_cc.distance_ndim(a_n, b_n, icode))
        if icode == 0:
            add(edv, edr, "c:dtw_cc.ub_euclidean_ndim", lambda: dtw_cc.ub_euclidean_ndim(a_n, b_n))
        add(ub, ubr, "py:dtw_ndim.distance[only_ub]", lambda: dtw_ndim.distance(a_n, b_n, only_ub=True, **kwn))
        add(ub, ubr, "c:dtw_ndim.distance_fast[only_ub]",
            lambda: dtw_ndim.distance_fast(a_n, b_n, only_ub=True, **kwn))
        add(ub, ubr, "c:dtw_ndim.distance[only_ub,use_c]",
            lambda: dtw_ndim.distance(a_n, b_n, only_ub=True, use_c=True, **kwn))
        dref = enc_guarded(c, lambda: dtw_ndim.distance(a_n, b_n, **kwn))
        kw0 = {k: v for k, v in kwn.items() if k != "penalty"}
        d0 = enc_guarded(c, lambda: dtw_ndim.distance(a_n, b_n, **kw0)) if len(c["s1"]) != len(c["s2"]) else dref

    def nat(fn, *extra):
        a = native.flat_series(c, "s1")
        b = native.flat_series(c, "s2")
        A = native.Buf(len(a), fill=a)
        B = native.Buf(len(b), fill=b)
        try:
            r = fn(A.ptr, len(c["s1"]), B.ptr, len(c["s2"]), *extra)
            A.check("s1")
            B.check("s2")
            return r
        finally:
            A.free()
            B.free()
    suffix = "_euclidean" if icode else ""
    if nd == 1:
        st = lib.settings(c)
        add(lb, lbr, "native:lb_keogh", lambda: nat(lib.L.lb_keogh, st))
        add(edv, edr, "native:euclidean_distance" + suffix,
            lambda: nat(getattr(lib.L, "euclidean_distance" + suffix)))
        add(edv, edr, "native:ub_euclidean" + suffix, lambda: nat(getattr(lib.L, "ub_euclidean" + suffix)))
    else:
        add(edv, edr, "native:euclidean_distance_ndim" + suffix,
            lambda: nat(getattr(lib.L, "euclidean_distance_ndim" + suffix), nd))
        add(edv, edr, "native:ub_euclidean_ndim" + suffix,
            lambda: nat(getattr(lib.L, "ub_euclidean_ndim" + suffix), nd))
    return {"id": c["id"], "lb": lb, "lbroutes": lbr, "ed": edv, "edroutes": edr, "ub": ub, "ubroutes": ubr,
            "dtw": dref, "dtw0": d0, "routes": lbr + edr + ubr}


# ---------------------------------------------------------------------------------------------
# C10: laws on pairs of calls
def run_c10(c):
    from dtaidistance import dtw, dtw_ndim, ed
    import copy
    nd = ndim_of(c)
    l1, l2 = len(c["s1"]), len(c["s2"])
    rel = []

    def dist(cc, engine):
        kw = settings(cc)
        if engine == "py":
            a = series(cc, "s1", "list" if nd == 1 else "numpy")
            b = series(cc, "s2", "list" if nd == 1 else "numpy")
            return enc_guarded(cc, lambda: dtw.distance(a, b, **kw))
        a, b = series(cc, "s1", "numpy"), series(cc, "s2", "numpy")
        return enc_guarded(cc, lambda: dtw.distance_fast(a, b, **kw))

    def variant(**ch):
        cc = copy.deepcopy(c)
        cc.update(ch)
        return cc

    base = None
    engines = ["py", "c"] if c["inner"] != "cu" else ["py"]
    for eng in engines:
        d = dist(c, eng)
        if base is None:
            base = d
        rel.append([eng + ":nonneg", "nonneg", d, 0])
        # identity
        rel.append([eng + ":identity", "zero", dist(variant(s2=c["s1"], psi=[min(p, l1) for p in c["psi"]]), eng)
                    if True else 0, 0])
        # symmetry with the per-series psi entries swapped
        sw = variant(s1=c["s2"], s2=c["s1"], psi=[c["psi"][2], c["psi"][3], c["psi"][0], c["psi"][1]])
        rel.append([eng + ":symmetry", "eq", dist(sw, eng), d])
        # ... also with a bound on the length difference (at the difference: allowed, one below: refused, both ways)
        if l1 != l2 and c["mld"] == -1:
            for k in sorted({abs(l1 - l2), abs(l1 - l2) - 1} - {0}):
                rel.append([eng + ":symmetry[max_length_diff=|l1-l2|%s]" % ("" if k == abs(l1 - l2) else "-1"), "eq",
                            dist(dict(sw, mld=k), eng), dist(variant(mld=k), eng)])
        # ... also with the Euclidean bound in play (pruning where it is a valid bound, and the bound itself)
        if c["inner"] != "cu" and c["ms"] == 0 and c["md"] == 0 and (c["pen"] == 0 or l1 == l2):
            rel.append([eng + ":symmetry[use_pruning]", "eq", dist(dict(sw, prune=True), eng),
                        dist(variant(prune=True), eng)])
            inner = "euclidean" if c["inner"] == "eu" else "squared euclidean"
            a2, b2 = series(c, "s1", "numpy"), series(c, "s2", "numpy")
            if eng == "py":
                rel.append(["py:symmetry[ed.distance]", "eq",
                            enc_guarded(c, lambda: ed.distance(a2, b2, inner_dist=inner, use_ndim=(nd > 1))),
                            enc_guarded(c, lambda: ed.distance(b2, a2, inner_dist=inner, use_ndim=(nd > 1)))])
        # window monotonicity
        if c["w"] != 0:
            rel.append([eng + ":window+1", "le", dist(variant(w=c["w"] + 1), eng), d])
            rel.append([eng + ":window=none", "le", dist(variant(w=0), eng), d])
        # psi monotonicity
        for k in range(4):
            ln = l1 if k < 2 else l2
            if c["psi"][k] < ln:
                p2 = list(c["psi"])
                p2[k] += 1
                if not ((p2[0] >= l1 and p2[3] >= l2) or (p2[2] >= l2 and p2[1] >= l1)):
                    rel.append([eng + ":psi[%d]+1" % k, "le", dist(variant(psi=p2), eng), d])
        # max_step relaxed
        if c["ms"] != 0:
            rel.append([eng + ":max_step+1", "le", dist(variant(ms=c["ms"] + 1), eng), d])
            rel.append([eng + ":max_step=none", "le", dist(variant(ms=0), eng), d])
        # penalty grows
        rel.append([eng + ":penalty+1", "le", d, dist(variant(pen=c["pen"] + 1), eng)])
        # window 1 on equal lengths is the Euclidean distance
        if l1 == l2 and not any(c["psi"]) and c["ms"] == 0 and c["inner"] != "cu":
            w1 = dist(variant(w=1), eng)
            inner = "euclidean" if c["inner"] == "eu" else "squared euclidean"
            a, b = series(c, "s1", "numpy"), series(c, "s2", "numpy")
            e = enc_guarded(c, lambda: ed.distance(a, b, inner_dist=inner, use_ndim=(nd > 1)))
            rel.append([eng + ":window=1 is ED", "eq", w1, e])
    # mirrored entries of a non-triangular distance-matrix block (what makes mirroring valid)
    if nd == 1 and not any(c["psi"]) and c["inner"] != "cu":
        kw = settings(c)
        a, b = series(c, "s1", "numpy"), series(c, "s2", "numpy")

        def blk(use_c):
            m = dtw.distance_matrix([a, b], block=((0, 2), (0, 2), False), compact=True, use_c=use_c, **kw)
            return m
        for use_c in (False, True):
            r = guarded(lambda: blk(use_c))
            if is_raised(r):
                rel.append(["matrix[%s]:raised" % ("c" if use_c else "py"), "eq", RAISED, 0])
            else:
                rel.append(["matrix[%s]:(0,1)=(1,0)" % ("c" if use_c else "py"), "eq", enc_cost(c, r[1]), enc_cost(c, r[2])])
                rel.append(["matrix[%s]:(0,0)=0" % ("c" if use_c else "py"), "zero", enc_cost(c, r[0]), 0])
    return {"id": c["id"], "rel": rel, "base": base, "routes": [r[0] for r in rel]}



# ---------------------------------------------------------------------------------------------
# C11: multivariate routes judged against the vector-point-distance specification
def run_c11_dist(c):
    from dtaidistance import dtw, dtw_ndim, dtw_cc
    nd = ndim_of(c)
    kw = settings(c)
    kw["use_ndim"] = True
    kwn = {k: v for k, v in kw.items() if k != "use_ndim"}
    a, b = series(c, "s1", "numpy", flat=False), series(c, "s2", "numpy", flat=False)
    routes, obs = [], []

    def add(name, fn):
        routes.append(name)
        obs.append(enc_guarded(c, fn))

    add("py:dtw_ndim.distance", lambda: dtw_ndim.distance(a, b, **kwn))
    add("py:dtw.distance[use_ndim]", lambda: dtw.distance(a, b, **kw))
    add("c:dtw_ndim.distance_fast", lambda: dtw_ndim.distance_fast(a, b, **kwn))
    add("c:dtw_ndim.distance[use_c]", lambda: dtw_ndim.distance(a, b, use_c=True, **kwn))
    a_l = series(c, "s1", "list", flat=False)
    b_l = series(c, "s2", "list", flat=False)
    if not c.get("prune"):
        add("py:dtw_ndim.distance[list of lists->numpy rows]",
            lambda: dtw_ndim.distance(np().array(a_l), np().array(b_l), **kwn))
    # distance matrices: list of 2-D arrays and (equal lengths) one 3-D array
    kwm = dict(kwn)
    add("py:dtw_ndim.distance_matrix[list]", lambda: dtw_ndim.distance_matrix([a, b], compact=True, **kwm)[0])
    add("c:dtw_ndim.distance_matrix[list,use_c]",
        lambda: dtw_ndim.distance_matrix([a, b], compact=True, use_c=True, **kwm)[0])
    if len(c["s1"]) == len(c["s2"]):
        cube = np().array([a, b])
        add("py:dtw_ndim.distance_matrix[3-D array]", lambda: dtw_ndim.distance_matrix(cube, compact=True, **kwm)[0])
        add("c:dtw_ndim.distance_matrix[3-D array,use_c]",
            lambda: dtw_ndim.distance_matrix(cube, compact=True, use_c=True, **kwm)[0])
    if nd == 1:
        # d = 1 coincides with the univariate result on the flattened series
        k1 = {k: v for k, v in kwn.items()}
        add("py:dtw.distance[flattened]", lambda: dtw.distance(a[:, 0].copy(), b[:, 0].copy(), **k1))
        add("c:dtw.distance_fast[flattened]", lambda: dtw.distance_fast(a[:, 0].copy(), b[:, 0].copy(), **k1))
    add("native:dtw_distance_ndim", lambda: _native_dist(dict(c, use_ndim=True)))
    return {"id": c["id"], "routes": routes, "obs": obs}


def run_c11_wps(c):
    from dtaidistance import dtw_ndim
    kw = settings(c)
    kwn = {k: v for k, v in kw.items() if k != "use_ndim"}
    a, b = series(c, "s1", "numpy", flat=False), series(c, "s2", "numpy", flat=False)
    routes, mats, ds, negs = [], [], [], []

    def add(name, fn, neg, int_repr):
        routes.append(name)
        negs.append(bool(neg))
        r = guarded(fn)
        if is_raised(r):
            mats.append([])
            ds.append(RAISED)
            return
        mats.append(enc_matrix(c, r[1], int_repr))
        ds.append(_enc_d(c, r[0], int_repr))
    add("py:dtw_ndim.warping_paths", lambda: dtw_ndim.warping_paths(a, b, **kwn), True, False)
    add("c:dtw_ndim.warping_paths_fast", lambda: dtw_ndim.warping_paths_fast(a, b, **kwn), True, False)
    add("c:dtw_ndim.warping_paths_fast[int]", lambda: dtw_ndim.warping_paths_fast(a, b, keep_int_repr=True, **kwn),
        True, True)
    r = guarded(lambda: _native_wps(c, True, False, []))
    routes.append("native:compact+expand[ndim]")
    negs.append(True)
    if is_raised(r):
        mats.append([])
        ds.append(RAISED)
    else:
        mats.append(enc_matrix(c, r[1], False))
        ds.append(_enc_d(c, r[0], False))
    return {"id": c["id"], "routes": routes, "mat": mats, "d": ds, "neg": negs, "slices": []}


def run_c11_path(c):
    from dtaidistance import dtw, dtw_ndim, dtw_cc
    nd = ndim_of(c)
    kw = settings(c)
    kwn = {k: v for k, v in kw.items() if k != "use_ndim"}
    a, b = series(c, "s1", "numpy", flat=False), series(c, "s2", "numpy", flat=False)
    routes, paths, ds = [], [], []

    def add(name, fn, with_d=False):
        routes.append(name)
        r = guarded(fn)
        if is_raised(r):
            paths.append([[-3, -3]])
            ds.append(ABSENT)
            return
        if with_d:
            p, d = r
            ds.append(enc_cost(c, d))
        else:
            p = r
            ds.append(ABSENT)
        paths.append(enc_path(p))
    add("py:dtw_ndim.warping_path", lambda: dtw_ndim.warping_path(a, b, include_distance=True, **kwn), True)
    kwz = settings(c, none_as_zero=True)
    kwz.pop("use_ndim", None)
    add("c:dtw_cc.warping_path_ndim", lambda: dtw_cc.warping_path_ndim(a, b, nd, include_distance=True, **kwz), True)
    add("native:dtw_warping_path_ndim", lambda: tuple(reversed(_native_path(c))), True)
    return {"id": c["id"], "routes": routes, "paths": paths, "d": ds}



# C05: custom start cells (dtw.best_path(row=, col=) and C dtw_best_path_customstart on the compact matrix)
def run_c05_custom(c):
    import ctypes
    import random
    from dtaidistance import dtw
    from . import native
    nd = ndim_of(c)
    kw = settings(c)
    l1, l2 = len(c["s1"]), len(c["s2"])
    a, b = series(c, "s1", "numpy"), series(c, "s2", "numpy")
    rng = random.Random("cs-%s" % c["id"])
    w = c["w"] or max(l1, l2)
    cells = [(l1, l2)]
    for _ in range(3):
        r = rng.randint(1, l1)
        lo = max(1, r - max(0, l1 - l2) - w + 1)
        hi = min(l2, r + max(0, l2 - l1) + w - 1)
        if lo <= hi:
            cells.append((r, rng.randint(lo, hi)))
    routes, paths, starts = [], [], []
    sdt = dtw.DTWSettings(**kw)
    rm = guarded(lambda: dtw.warping_paths(a, b, keep_int_repr=True, psi_neg=False, **kw)[1])
    lib = native.lib("plain")
    st = lib.settings(c)
    n = lib.L.dtw_settings_wps_length(l1, l2, st)
    A = native.Buf(l1 * nd, fill=native.flat_series(c, "s1"))
    B = native.Buf(l2 * nd, fill=native.flat_series(c, "s2"))
    W = native.Buf(n, fill=float("nan"))
    lib.L.dtw_warping_paths_ndim(W.ptr, A.ptr, l1, B.ptr, l2, True, True, False, nd, st)
    for (rs, cs) in cells:
        routes.append("py:best_path[row=%d,col=%d]" % (rs, cs))
        starts.append([rs, cs])
        if is_raised(rm):
            paths.append([[-3, -3]])
        else:
            r = guarded(lambda: dtw.best_path(rm, row=rs, col=cs, penalty=sdt.adj_penalty))
            paths.append([[-3, -3]] if is_raised(r) else enc_path(r))
        routes.append("native:dtw_best_path_customstart[%d,%d]" % (rs, cs))
        starts.append([rs, cs])
        I1 = native.Buf(l1 + l2, native.idx_t, fill=-7)
        I2 = native.Buf(l1 + l2, native.idx_t, fill=-7)
        k = lib.L.dtw_best_path_customstart(W.ptr, I1.ptr, I2.ptr, l1, l2, rs, cs, st)
        try:
            I1.check("i1")
            I2.check("i2")
            W.check("wps")
            if 0 <= k <= l1 + l2:
                p = [(I1.arr[i], I2.arr[i]) for i in range(k)]
                p.reverse()
                paths.append(enc_path(p))
            else:
                paths.append([[-1, -1]])
        except native.CanaryError:
            paths.append([[-2, -2]])
        I1.free()
        I2.free()
    for x in (A, B, W):
        x.free()
    return {"id": c["id"], "routes": routes, "paths": paths, "starts": starts}


# ---------------------------------------------------------------------------------------------
# X02 (extension): functions derived from a best path: warping_amount, warping_path_penalty, warp
def run_x02(c):
    from dtaidistance import dtw
    kw = settings(c)
    S = c["S"]
    a, b = series(c, "s1", "list"), series(c, "s2", "list")
    pp = c["pp"]                      # penalty_post in the scaled unit
    out = {"id": c["id"], "routes": ["warping_path_penalty", "warping_amount", "warp"], "pp": pp}

    def lattice(v, scale):
        k = round(v * scale)
        return int(k) if abs(k / scale - v) <= 1e-9 * max(1.0, abs(v)) else OFF_LATTICE

    def penalty():
        total, path, steps, paths = dtw.warping_path_penalty(a, b, penalty_post=pp / S, **kw)
        d_plain, _m = dtw.warping_paths(a, b, **kw)
        return total, path, steps, d_plain
    r = guarded(penalty)
    if is_raised(r):
        out.update({"p": [[-3, -3]], "amount": -3, "extra": -3, "steps": []})
    else:
        total, path, steps, d_plain = r
        out["p"] = enc_path(path)
        out["amount"] = int(dtw.warping_amount(path))
        out["extra"] = lattice(float(total) - float(d_plain), S)
        # cumulative-cost differences are exact integers only for the euclidean inner distance (no sqrt)
        out["steps"] = [lattice(float(x), S) for x in steps] if c["inner"] == "eu" else []
    r = guarded(lambda: dtw.warp(a, b, **kw))
    if is_raised(r):
        out.update({"wp": [[-3, -3]], "warp": []})
    else:
        warped, wpath = r
        wpath = enc_path(wpath)
        out["wp"] = wpath
        cnt = [sum(1 for (_r, cc) in wpath if cc == j) for j in range(len(b))]
        out["warp"] = [[lattice(float(warped[j]) * cnt[j], S) if cnt[j] else OFF_LATTICE, cnt[j]]
                       for j in range(len(b))]
    return out
