"""ctypes binding to a shared library compiled from the repository's C sources (harness/build.native_lib).

Caller-provided buffers are allocated at exactly the documented sizes:
  * in an ASan process (LD_PRELOAD=libasan) with the interposed malloc, so one element out of
    bounds is a sanitizer report;
  * otherwise inside a larger array between canaries, checked after every call.
"""
import ctypes as C
import math
import os

idx_t = C.c_ssize_t
seq_t = C.c_double
P_seq = C.POINTER(seq_t)
P_idx = C.POINTER(idx_t)


_FALLBACK = {
    "DTWSettings": [("window", idx_t), ("max_dist", seq_t), ("max_step", seq_t), ("max_length_diff", idx_t),
                    ("penalty", seq_t), ("psi_1b", idx_t), ("psi_1e", idx_t), ("psi_2b", idx_t), ("psi_2e", idx_t),
                    ("use_pruning", C.c_bool), ("only_ub", C.c_bool), ("inner_dist", C.c_int),
                    ("window_type", C.c_int)],
    "DTWBlock": [("rb", idx_t), ("re", idx_t), ("cb", idx_t), ("ce", idx_t), ("triu", C.c_bool)],
    "DTWWps": [("ldiff", idx_t), ("ldiffr", idx_t), ("ldiffc", idx_t), ("window", idx_t), ("width", idx_t),
               ("length", idx_t), ("ri1", idx_t), ("ri2", idx_t), ("ri3", idx_t), ("overlap_left_ri", idx_t),
               ("overlap_right_ri", idx_t), ("max_step", seq_t), ("max_dist", seq_t), ("penalty", seq_t)],
}
_CTYPES = {"idx_t": idx_t, "ssize_t": idx_t, "seq_t": seq_t, "double": C.c_double, "float": C.c_float,
           "bool": C.c_bool, "int": C.c_int, "unsigned int": C.c_uint, "long": C.c_long, "size_t": C.c_size_t,
           "char": C.c_char, "unsigned char": C.c_ubyte, "ba_t": C.c_ubyte}


def _struct_fields(name):
    """Field layout of `struct <name>_s` read from /repo's dd_dtw.h, so that a field added to a settings
    structure does not silently shift the layout used by the ctypes calls.  Falls back to the layout of the
    pinned commit when the header cannot be read."""
    import re
    try:
        from . import build
        text = open(os.path.join(build.REPO, build.CDIR, "dd_dtw.h")).read()
        text = re.sub(r"/\*.*?\*/", " ", text, flags=re.S)
        text = re.sub(r"//[^\n]*", "", text)
        m = re.search(r"struct\s+%s_s\s*\{(.*?)\}\s*;" % name, text, re.S)
        if not m:
            return _FALLBACK[name]
        fields = []
        for decl in m.group(1).split(";"):
            decl = decl.strip()
            if not decl:
                continue
            dm = re.match(r"^((?:unsigned\s+)?\w+)\s+(\w+(?:\s*,\s*\w+)*)$", decl)
            if not dm or dm.group(1) not in _CTYPES:
                return _FALLBACK[name]
            for fld in dm.group(2).split(","):
                fields.append((fld.strip(), _CTYPES[dm.group(1)]))
        have = {f for f, _t in fields}
        if not {f for f, _t in _FALLBACK[name]} <= have:
            return _FALLBACK[name]            # a field the harness sets by name is gone: keep the pinned layout
        return fields
    except Exception:
        return _FALLBACK[name]


DTWSettings = type("DTWSettings", (C.Structure,), {"_fields_": _struct_fields("DTWSettings")})
DTWBlock = type("DTWBlock", (C.Structure,), {"_fields_": _struct_fields("DTWBlock")})
DTWWps = type("DTWWps", (C.Structure,), {"_fields_": _struct_fields("DTWWps")})


CANARY = -7.777e77
ICANARY = -77777777
GUARD = 16
IN_ASAN = "libasan" in os.environ.get("LD_PRELOAD", "")
_libc = None


class CanaryError(Exception):
    pass


class Buf:
    """A caller buffer of exactly n elements (double or idx_t)."""

    def __init__(self, n, ctype=seq_t, fill=None):
        global _libc
        self.n = n
        self.ctype = ctype
        self.can = CANARY if ctype is seq_t else (0xA5 if C.sizeof(ctype) == 1 else ICANARY)
        if IN_ASAN:
            if _libc is None:
                _libc = C.CDLL(None)
                _libc.malloc.restype = C.c_void_p
                _libc.malloc.argtypes = [C.c_size_t]
                _libc.free.argtypes = [C.c_void_p]
            self.raw = _libc.malloc(max(1, n) * C.sizeof(ctype)) if n > 0 else _libc.malloc(1)
            self.arr = C.cast(self.raw, C.POINTER(ctype))
            self.base = None
        else:
            self.base = (ctype * (n + 2 * GUARD))()
            for i in range(GUARD):
                self.base[i] = self.can
                self.base[GUARD + n + i] = self.can
            self.arr = C.cast(C.byref(self.base, GUARD * C.sizeof(ctype)), C.POINTER(ctype))
            self.raw = None
        if fill is not None:
            if isinstance(fill, (int, float)):
                for i in range(n):
                    self.arr[i] = fill
            else:
                for i, v in enumerate(fill):
                    self.arr[i] = v

    @property
    def ptr(self):
        return self.arr

    def tolist(self):
        return [self.arr[i] for i in range(self.n)]

    def check(self, what=""):
        if self.base is not None:
            for i in range(GUARD):
                if self.base[i] != self.can or self.base[GUARD + self.n + i] != self.can:
                    raise CanaryError("write outside caller buffer (%s, n=%d, guard index %d)" % (what, self.n, i))

    def free(self):
        if self.raw:
            _libc.free(self.raw)
            self.raw = None


class Lib:
    def __init__(self, path):
        self.path = path
        L = self.L = C.CDLL(path)
        S = C.POINTER(DTWSettings)
        B = C.POINTER(DTWBlock)
        sig = {
            "dtw_settings_default": (DTWSettings, []),
            "dtw_settings_wps_length": (idx_t, [idx_t, idx_t, S]),
            "dtw_settings_wps_width": (idx_t, [idx_t, idx_t, S]),
            "dtw_wps_parts": (DTWWps, [idx_t, idx_t, S]),
            "dtw_distance": (seq_t, [P_seq, idx_t, P_seq, idx_t, S]),
            "dtw_distance_euclidean": (seq_t, [P_seq, idx_t, P_seq, idx_t, S]),
            "dtw_distance_ndim": (seq_t, [P_seq, idx_t, P_seq, idx_t, C.c_int, S]),
            "dtw_distance_ndim_euclidean": (seq_t, [P_seq, idx_t, P_seq, idx_t, C.c_int, S]),
            "dtw_warping_paths": (seq_t, [P_seq, P_seq, idx_t, P_seq, idx_t, C.c_bool, C.c_bool, C.c_bool, S]),
            "dtw_warping_paths_ndim": (seq_t, [P_seq, P_seq, idx_t, P_seq, idx_t, C.c_bool, C.c_bool, C.c_bool,
                                               C.c_int, S]),
            "dtw_warping_paths_affinity": (seq_t, [P_seq, P_seq, idx_t, P_seq, idx_t, C.c_bool, C.c_bool, C.c_bool,
                                                   C.c_bool, seq_t, seq_t, seq_t, seq_t, S]),
            "dtw_warping_paths_affinity_ndim": (seq_t, [P_seq, P_seq, idx_t, P_seq, idx_t, C.c_bool, C.c_bool,
                                                        C.c_bool, C.c_bool, C.c_int, seq_t, seq_t, seq_t, seq_t, S]),
            "dtw_expand_wps": (None, [P_seq, P_seq, idx_t, idx_t, S]),
            "dtw_expand_wps_slice": (None, [P_seq, P_seq, idx_t, idx_t, idx_t, idx_t, idx_t, idx_t, S]),
            "dtw_expand_wps_affinity": (None, [P_seq, P_seq, idx_t, idx_t, S]),
            "dtw_expand_wps_slice_affinity": (None, [P_seq, P_seq, idx_t, idx_t, idx_t, idx_t, idx_t, idx_t, S]),
            "dtw_wps_loc": (idx_t, [C.POINTER(DTWWps), idx_t, idx_t, idx_t, idx_t]),
            "dtw_wps_loc_columns": (idx_t, [C.POINTER(DTWWps), idx_t, P_idx, P_idx, idx_t, idx_t]),
            "dtw_wps_max": (idx_t, [C.POINTER(DTWWps), P_seq, P_idx, P_idx, idx_t, idx_t]),
            "dtw_wps_negativize": (None, [C.POINTER(DTWWps), P_seq, idx_t, idx_t, idx_t, idx_t, idx_t, idx_t, C.c_bool]),
            "dtw_wps_positivize": (None, [C.POINTER(DTWWps), P_seq, idx_t, idx_t, idx_t, idx_t, idx_t, idx_t, C.c_bool]),
            "dtw_best_path": (idx_t, [P_seq, P_idx, P_idx, idx_t, idx_t, S]),
            "dtw_best_path_customstart": (idx_t, [P_seq, P_idx, P_idx, idx_t, idx_t, idx_t, idx_t, S]),
            "dtw_best_path_isclose": (idx_t, [P_seq, P_idx, P_idx, idx_t, idx_t, seq_t, seq_t, S]),
            "dtw_best_path_affinity": (idx_t, [P_seq, P_idx, P_idx, idx_t, idx_t, idx_t, idx_t, S]),
            "dtw_best_path_prob": (idx_t, [P_seq, P_idx, P_idx, idx_t, idx_t, seq_t, S]),
            "dtw_warping_path": (seq_t, [P_seq, idx_t, P_seq, idx_t, P_idx, P_idx, P_idx, S]),
            "dtw_warping_path_ndim": (seq_t, [P_seq, idx_t, P_seq, idx_t, P_idx, P_idx, P_idx, C.c_int, S]),
            "ub_euclidean": (seq_t, [P_seq, idx_t, P_seq, idx_t]),
            "ub_euclidean_ndim": (seq_t, [P_seq, idx_t, P_seq, idx_t, C.c_int]),
            "ub_euclidean_euclidean": (seq_t, [P_seq, idx_t, P_seq, idx_t]),
            "ub_euclidean_ndim_euclidean": (seq_t, [P_seq, idx_t, P_seq, idx_t, C.c_int]),
            "euclidean_distance": (seq_t, [P_seq, idx_t, P_seq, idx_t]),
            "euclidean_distance_euclidean": (seq_t, [P_seq, idx_t, P_seq, idx_t]),
            "euclidean_distance_ndim": (seq_t, [P_seq, idx_t, P_seq, idx_t, C.c_int]),
            "euclidean_distance_ndim_euclidean": (seq_t, [P_seq, idx_t, P_seq, idx_t, C.c_int]),
            "lb_keogh": (seq_t, [P_seq, idx_t, P_seq, idx_t, S]),
            "lb_keogh_euclidean": (seq_t, [P_seq, idx_t, P_seq, idx_t, S]),
            "dtw_block_is_valid": (C.c_bool, [B, idx_t, idx_t]),
            "dtw_distances_length": (idx_t, [B, idx_t, idx_t]),
            "dtw_distances_ptrs": (idx_t, [C.POINTER(P_seq), idx_t, P_idx, P_seq, B, S]),
            "dtw_distances_ndim_ptrs": (idx_t, [C.POINTER(P_seq), idx_t, P_idx, C.c_int, P_seq, B, S]),
            "dtw_distances_matrix": (idx_t, [P_seq, idx_t, idx_t, P_seq, B, S]),
            "dtw_distances_ndim_matrix": (idx_t, [P_seq, idx_t, idx_t, C.c_int, P_seq, B, S]),
            "dtw_distances_matrices": (idx_t, [P_seq, idx_t, idx_t, P_seq, idx_t, idx_t, P_seq, B, S]),
            "dtw_distances_ndim_matrices": (idx_t, [P_seq, idx_t, idx_t, P_seq, idx_t, idx_t, C.c_int, P_seq, B, S]),
            "dtw_distances_prepare": (C.c_int, [B, idx_t, idx_t, C.POINTER(P_idx), C.POINTER(P_idx), P_idx, S]),
            "dtw_distances_ptrs_parallel": (idx_t, [C.POINTER(P_seq), idx_t, P_idx, P_seq, B, S]),
            "dtw_distances_ndim_ptrs_parallel": (idx_t, [C.POINTER(P_seq), idx_t, P_idx, C.c_int, P_seq, B, S]),
            "dtw_distances_matrix_parallel": (idx_t, [P_seq, idx_t, idx_t, P_seq, B, S]),
            "dtw_distances_ndim_matrix_parallel": (idx_t, [P_seq, idx_t, idx_t, C.c_int, P_seq, B, S]),
            "dtw_distances_matrices_parallel": (idx_t, [P_seq, idx_t, idx_t, P_seq, idx_t, idx_t, P_seq, B, S]),
            "dtw_distances_ndim_matrices_parallel": (idx_t, [P_seq, idx_t, idx_t, P_seq, idx_t, idx_t, C.c_int,
                                                             P_seq, B, S]),
            "dtw_dba_ptrs": (None, [C.POINTER(P_seq), idx_t, P_idx, P_seq, idx_t, C.POINTER(C.c_ubyte), C.c_int,
                                    C.c_int, S]),
            "dtw_dba_matrix": (None, [P_seq, idx_t, idx_t, P_seq, idx_t, C.POINTER(C.c_ubyte), C.c_int, C.c_int, S]),
            "is_openmp_supported": (C.c_bool, []),
        }
        for name, (res, args) in sig.items():
            try:
                f = getattr(L, name)
            except AttributeError:
                continue
            f.restype = res
            f.argtypes = args

    def settings(self, c=None, **over):
        """C settings from a case record (see dtwx): the documented 0 = off encoding."""
        s = self.L.dtw_settings_default()
        if c is not None:
            S = c["S"]
            s.window = c["w"]
            s.penalty = c["pen"] / S
            s.max_step = c["ms"] / S
            s.max_dist = (c["md"] / 2) / S
            s.max_length_diff = 0 if c["mld"] == -1 else c["mld"]
            s.psi_1b, s.psi_1e, s.psi_2b, s.psi_2e = c["psi"]
            s.use_pruning = bool(c.get("prune"))
            s.inner_dist = 1 if c["inner"] == "eu" else 0
        for k, v in over.items():
            setattr(s, k, v)
        return s


_cache = {}


def lib(flavour="plain", hooks=False):
    key = (flavour, hooks)
    if key not in _cache:
        from . import build
        _cache[key] = Lib(build.native_lib(flavour, hooks=hooks))
    return _cache[key]


def lib_at(path):
    if path not in _cache:
        _cache[path] = Lib(path)
    return _cache[path]


def flat_series(c, which):
    S = c["S"]
    out = []
    for p in c[which]:
        for x in p:
            out.append(x / S)
    return out
