"""Worker-side execution of affinity / local-concurrence cases (C18)."""
import math

from . import dtwx

SC = 131072
LN2 = math.log(2.0)
_np = None


def np():
    global _np
    if _np is None:
        import numpy
        _np = numpy
    return _np


def params(c):
    kw = {"gamma": LN2, "tau": c["tau2"] / (2.0 * SC), "delta": c["delta"] / SC,
          "delta_factor": c["dfnum"] / c["dfden"], "only_triu": bool(c["triu"])}
    kw["penalty"] = (c["pen"] / SC) if (c["pen"] or not c.get("pen_none")) else None
    kw["window"] = c["w"] if c["w"] else None
    if any(c.get("psi", [0])):
        kw["psi"] = tuple(c["psi"])          # (begin s1, end s1, begin s2, end s2): only the matrix routes take it
    return kw


def enc_cell(v):
    v = float(v)
    if v != v:
        return -2
    if math.isinf(v):
        return -1 if v < 0 else -2
    x = v * SC
    k = round(x)
    if abs(x - k) > 1e-6 * max(1.0, abs(x)):
        return -2
    return int(k)


def enc_mat(m):
    try:
        return [[enc_cell(v) for v in row] for row in m]
    except Exception:
        return [[-2]]


def run_c18(it):
    from dtaidistance import dtw, dtw_cc
    from dtaidistance.subsequence.localconcurrences import local_concurrences
    c = it["c"]
    a = np().array([p[0] for p in c["s1"]], dtype=np().double)
    b = np().array([p[0] for p in c["s2"]], dtype=np().double)
    kw = params(c)
    l1, l2 = len(a), len(b)
    mats, hists = [], []

    def addm(name, fn):
        r = dtwx.guarded(fn)
        if dtwx.is_raised(r):
            mats.append({"route": name + ":raised:" + r.msg[:50].replace('"', "'"), "mat": [[-3]]})
        else:
            mats.append({"route": name, "mat": enc_mat(r)})

    addm("py:warping_paths_affinity", lambda: dtw.warping_paths_affinity(a, b, **kw)[1])
    addm("c:warping_paths_affinity[use_c]", lambda: dtw.warping_paths_affinity(a, b, use_c=True, **kw)[1])
    addm("c:warping_paths_affinity_fast", lambda: dtw.warping_paths_affinity_fast(a, b, **kw)[1])

    def compact_expand():
        _d, wps = dtw.warping_paths_affinity_fast(a, b, compact=True, **kw)
        full = np().empty((l1 + 1, l2 + 1), dtype=np().double)
        st = dtw_cc.DTWSettings(window=kw["window"], penalty=kw["penalty"], psi=kw.get("psi"))
        dtw_cc.wps_expand_slice(wps, full, l1, l2, 0, l1 + 1, 0, l2 + 1, st)
        return full
    addm("c:compact+wps_expand_slice[full range]", compact_expand)
    # local-concurrence histories
    for variant in it["variants"]:
        name = "lc[%s%s%s]" % ("c" if variant["use_c"] else "py", ",compact" if variant.get("compact") else "",
                               ",self" if variant.get("self") else "")
        matches = []
        try:
            kw2 = {k: v for k, v in kw.items() if k != "psi"}
            if variant.get("self"):
                kw2["only_triu"] = None
                lc = local_concurrences(a, None, use_c=variant["use_c"], compact=variant.get("compact"), **kw2)
            else:
                lc = local_concurrences(a, b, use_c=variant["use_c"], compact=variant.get("compact"), **kw2)
            for (k, minlen, buffer, restart) in it["calls"]:
                first = True
                for m in lc.kbest_matches(k=k, minlen=minlen, buffer=buffer, restart=restart):
                    # fresh: nothing is masked when this match is searched (first match of the object, or first
                    # match of a call that restarts); with minlen <= 1 no candidate is discarded for its length
                    matches.append({"path": dtwx.enc_path(m.path), "restart": bool(restart and first),
                                    "fresh": bool(first and (restart or not matches)), "minlen": int(minlen)})
                    first = False
            hists.append({"route": name, "matches": matches, "self": bool(variant.get("self"))})
        except Exception as exc:
            hists.append({"route": name + ":raised:" + type(exc).__name__ + ":" + str(exc)[:50].replace('"', "'"),
                          "matches": [{"path": [[-3, -3]], "restart": True, "fresh": False, "minlen": 9}],
                          "self": bool(variant.get("self"))})
    return {"id": it["id"], "mats": mats, "hists": hists, "routes": [x["route"] for x in mats + hists]}
