import glob
import os
import sys

VERIF = os.path.dirname(os.path.dirname(os.path.abspath(__file__)))
sys.path.insert(0, VERIF)
from harness import build, tlc  # noqa: E402

bad = 0
for p in sorted(glob.glob(os.path.join(VERIF, "spec", "*.tla"))):
    m = os.path.basename(p)[:-4]
    ok, out = tlc.sany(m)
    print("SANY %-28s %s" % (m, "ok" if ok else "FAILED"))
    if not ok:
        print(out[-2000:])
        bad += 1
print("py build:", build.py_build(verbose=True))
for fl in ("plain", "asan"):
    print("native %s:" % fl, build.native_lib(fl))
tlc.cleanup()
sys.exit(1 if bad else 0)
