import glob
import os
import sys

VERIF = os.path.dirname(os.path.dirname(os.path.abspath(__file__)))
sys.path.insert(0, VERIF)
from harness import build, tlc  # noqa: E402

bad = 0
for p in sorted(glob.glob(os.path.join(VERIF, "spec", "*.tla"))):
    m = os.path.basename(p)[:-4]
    if m.endswith("Proofs"):
        continue          # EXTENDS TLAPS: parsed and checked by tlapm below, not by SANY
    ok, out = tlc.sany(m)
    print("SANY %-28s %s" % (m, "ok" if ok else "FAILED"))
    if not ok:
        print(out[-2000:])
        bad += 1
print("py build:", build.py_build(verbose=True))
for fl in ("plain", "asan", "shim"):
    try:
        print("native %s:" % fl, build.native_lib(fl))
    except RuntimeError as e:
        if fl != "shim":
            raise
        print("native shim: unavailable (%s)" % str(e)[:200])
from harness import tlaps  # noqa: E402
print("tlapm LayoutProofs:", tlaps.layout_proofs())
import subprocess  # noqa: E402
r = subprocess.run([build.PY, os.path.join(VERIF, "tools", "test_ompparse.py")], capture_output=True, text=True)
print("ompparse self-test:", "ok" if r.returncode == 0 else "FAILED\n" + r.stdout[-2000:])
bad += r.returncode != 0
tlc.cleanup()
sys.exit(1 if bad else 0)
