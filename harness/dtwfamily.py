"""Common driver for properties decided by per-case records judged by spec/DTWTrace.tla."""
import json

from . import build, core, dtwcases as dc, dtwx, findings, tlc


def merge(recs_list):
    """Merge observation lists of several passes (same case ids)."""
    by = {}
    for recs in recs_list:
        for r in recs:
            if r.get("crashed"):
                r = {"id": r["id"], "routes": ["PROCESS-CRASH"], "obs": [-5]}
            m = by.setdefault(r["id"], {"id": r["id"], "routes": [], "obs": []})
            m["routes"] += r["routes"]
            m["obs"] += r["obs"]
    return by


def act_m(ctx, mc_cfgs, module="MC_DTWCore", workers=5, parallel=3):
    if not mc_cfgs:
        return
    ctx.log("Act M: TLC model-checks %s" % ", ".join(mc_cfgs))
    for res in tlc.model_check_many([(module, cfg, workers) for cfg in mc_cfgs], parallel=parallel):
        ctx.add_mc(res)
        ctx.log("  %s: %d distinct states, %.0fs" % (res["cfg"].split("/")[-1], res.get("distinct", 0), res["wall"]))


def classify(ctx, cases_by_id, fails, kind="dist"):
    """Split rejected records into known findings and violations."""
    known, _fixed = core.load_findings(ctx.pid)
    nviol = 0
    import os
    if os.environ.get("VERIF_DUMP_FAILS"):
        with open(os.environ["VERIF_DUMP_FAILS"], "a") as fh:          # one JSON list per judged pass
            json.dump([{"case": {k: v for k, v in cases_by_id[r].items()}, "clause": cl}
                       for r, cl in sorted(fails.items())], fh, default=str)
            fh.write("\n")
    for rid, clause in sorted(fails.items()):
        c = cases_by_id[rid]
        hit = None
        for f in known:
            if findings.matches(f, c, clause):
                hit = f
                break
        if hit is not None:
            ctx.known_hits[hit["id"]] = ctx.known_hits.get(hit["id"], 0) + 1
            continue
        nviol += 1
        if nviol <= 10:
            path = core.write_replay(ctx, "%s" % rid, {
                "property": ctx.pid, "case": c, "rejected_clause": clause, "record": c.get("_rec"),
                "how": "./check %s --replay <this file>; the record is judged by spec/DTWTrace.tla" % ctx.pid})
            ctx.violations.append(("%s rejected at %s" % (rid, clause), path))
        else:
            ctx.violations.append(("%s rejected at %s" % (rid, clause), ctx.violations[0][1]))
    for f in known:
        ctx.known_hits.setdefault(f["id"], 0)


def run_dist_family(ctx, cases, worker, nonumpy_pass=False, mc_cfgs=(), rule="", module="dtwx",
                    mc_module="MC_DTWCore", kind="dist"):
    ctx.rule = rule
    ctx.log("building /repo working tree")
    src = build.py_build()
    ctx.src = src
    act_m(ctx, list(mc_cfgs), module=mc_module)
    ctx.log("running %d cases through the implementation" % len(cases))
    passes = [core.pool_map(src, "harness." + module, worker, cases)]
    if nonumpy_pass:
        passes.append(core.pool_map(src, "harness." + module, worker, cases,
                                    env={"DTAIDISTANCE_TESTWITHOUTNUMPY": "1"}))
    merged = merge(passes)
    by_id = {c["id"]: c for c in cases}
    records = []
    for c in cases:
        m = merged[c["id"]]
        rec = {"id": c["id"], "kind": kind, "c": dtwx.tla_case(c), "prune": bool(c.get("prune")),
               "routes": m["routes"], "obs": m["obs"]}
        c["_rec"] = rec
        records.append(rec)
    ctx.evaluations += sum(len(r["obs"]) for r in records)
    ctx.log("Act T: TLC judges %d records (%d observations)" % (len(records), ctx.evaluations))
    res = tlc.validate_traces("DTWTrace", "DTWTrace.cfg", records, canary_fields=["obs"])
    ctx.add_tv(res)
    if res.get("notes"):
        ctx.extra["reference_deviates_from_spec"] = len(res["notes"])
    classify(ctx, by_id, res["fails"])
    seen = set()
    for c in cases:
        if dc.is_nontrivial(c):
            seen.add(json.dumps(dtwx.tla_case(c), sort_keys=True))
    ctx.nontrivial = seen
    ctx.samples = [c["_rec"] for c in cases[:: max(1, len(cases) // 6)]][:6]
    return core.finish(ctx)
