"""Worker-side execution of DBA cases (C12)."""
import ctypes
import math
from fractions import Fraction

from . import dtwx

_np = None


def np():
    global _np
    if _np is None:
        import numpy
        _np = numpy
    return _np


def lcm(a, b):
    return a * b // math.gcd(a, b)


def rationalise(arr, nd):
    """float average -> (integers at common scale dn, dn); dn = 0 if some value is not a small rational."""
    try:
        a = np().asarray(arr, dtype=float)
        if nd == 1:
            a = a.reshape(-1, 1)
        if a.ndim != 2:
            return [[0]], 0
        fr = []
        dn = 1
        for row in a:
            r = []
            for x in row:
                if x != x or math.isinf(x) or abs(x) > 1e6:
                    return [[0]], 0          # not a small rational (also keeps TLC's 32-bit integers safe)
                f = Fraction(float(x)).limit_denominator(5000)
                if abs(float(f) - float(x)) > 1e-11 * max(1.0, abs(x)):
                    return [[0]], 0
                r.append(f)
                dn = lcm(dn, f.denominator)
            fr.append(r)
        if dn > 100000:
            return [[0]], 0
        return [[int(f * dn) for f in r] for r in fr], dn
    except Exception:
        return [[0]], 0


def kwargs_of(it):
    kw = {}
    st = it["set"]
    if st["w"]:
        kw["window"] = st["w"]
    if st["pen"]:
        kw["penalty"] = float(st["pen"])
    if st["inner"] == "eu":
        kw["inner_dist"] = "euclidean"
    return kw


def run_c12(it):
    from dtaidistance import dtw_barycenter, dtw_cc
    from . import native
    nd = len(it["ser"][0][0])
    kw = kwargs_of(it)
    flat = nd == 1

    def arr(s):
        a = np().array([[float(x) for x in p] for p in s], dtype=np().double)
        return a[:, 0].copy() if flat else a
    ser = [arr(s) for s in it["ser"]]
    avg = arr(it["avg"])
    mask = np().array(it["mask"], dtype=bool)
    equal = len({len(s) for s in it["ser"]}) == 1
    routes, news, dns, loops = [], [], [], []

    def add(name, fn):
        r = dtwx.guarded(fn)
        routes.append(name if not dtwx.is_raised(r) else name + ":raised")
        if dtwx.is_raised(r):
            news.append([[0]])
            dns.append(-3)
        else:
            n, d = rationalise(r, nd)
            news.append(n)
            dns.append(d)

    add("py:dba", lambda: dtw_barycenter.dba(ser, avg.copy(), mask=mask, use_c=False, **kw))
    add("py:dba[use_c paths]", lambda: dtw_barycenter.dba(ser, avg.copy(), mask=mask, use_c=True, **kw))
    # the same numbers as an integer-typed array (the values of an average are integers in these cases)
    add("py:dba[int-typed average]", lambda: dtw_barycenter.dba(ser, avg.astype(np().int64), mask=mask, use_c=False, **kw))
    packed = np().packbits(mask, bitorder="little")
    kwc = dict(kw)

    def cdba(container):
        c = avg.copy()
        if flat:
            dtw_cc.dba(container, c, mask=packed, nb_prob_samples=0, **kwc)
        else:
            dtw_cc.dba_ndim(container, c, mask=packed, nb_prob_samples=0, ndim=nd, **kwc)
        return c
    add("c:dtw_cc.dba[list]", lambda: cdba(ser))
    if equal:
        from dtaidistance.util import SeriesContainer
        add("c:dtw_cc.dba[matrix container]", lambda: cdba(SeriesContainer.wrap(np().array(ser))))
        # the same array handed over as it is (2-D for univariate, 3-D for multivariate series)
        add("c:dtw_cc.dba[raw array]", lambda: cdba(np().array(ser)))

    def nat(layout):
        lib = native.lib("plain")
        L = lib.L
        n = len(ser)
        st = L.dtw_settings_default()
        st.window = it["set"]["w"]
        st.penalty = float(it["set"]["pen"])
        st.inner_dist = 1 if it["set"]["inner"] == "eu" else 0
        fl = [[float(x) for p in s for x in p] for s in it["ser"]]
        cv = [float(x) for p in it["avg"] for x in p]
        Cb = native.Buf(len(cv), fill=cv)
        nbytes = (n + 7) // 8
        mb = native.Buf(nbytes, ctypes.c_ubyte, fill=[int(b) for b in packed])
        bufs = [Cb, mb]
        try:
            if layout == "ptrs":
                sb = [native.Buf(len(f), fill=f) for f in fl]
                bufs += sb
                PT = (native.P_seq * n)(*[x.ptr for x in sb])
                LN = (native.idx_t * n)(*[len(s) for s in it["ser"]])
                L.dtw_dba_ptrs(PT, n, LN, Cb.ptr, len(it["avg"]), ctypes.cast(mb.ptr, ctypes.POINTER(ctypes.c_ubyte)),
                               0, nd, ctypes.byref(st))
            else:
                allf = [x for f in fl for x in f]
                M = native.Buf(len(allf), fill=allf)
                bufs.append(M)
                L.dtw_dba_matrix(M.ptr, n, len(it["ser"][0]), Cb.ptr, len(it["avg"]),
                                 ctypes.cast(mb.ptr, ctypes.POINTER(ctypes.c_ubyte)), 0, nd, ctypes.byref(st))
            for b in bufs:
                b.check("dba")
            out = Cb.tolist()
            return np().array(out).reshape(len(it["avg"]), nd) if not flat else np().array(out)
        finally:
            for b in bufs:
                b.free()
    add("native:dtw_dba_ptrs", lambda: nat("ptrs"))
    if equal:
        add("native:dtw_dba_matrix", lambda: nat("matrix"))
    # the loop: number of averaging steps bounded by max_it
    for use_c in (False, True):
        for maxit in it.get("maxits", [1, 3]):
            r = dtwx.guarded(lambda: dtw_barycenter.dba_loop(ser, avg.copy(), max_it=maxit, thr=None, mask=mask,
                                                             keep_averages=True, use_c=use_c, **kw))
            name = "%s:dba_loop[max_it=%d]" % ("c" if use_c else "py", maxit)
            if dtwx.is_raised(r):
                loops.append({"route": name + ":raised", "steps": 10 ** 6, "maxit": maxit})
            else:
                loops.append({"route": name, "steps": len(r[1]), "maxit": maxit})
                if maxit == 1:
                    # the first element of the chain is one legal step from avg
                    n, d = rationalise(r[1][0], nd)
                    routes.append(name + ":first step")
                    news.append(n)
                    dns.append(d)
    # probabilistic variant (nb_prob_samples > 0, C only): paths are sampled, not optimal, so only the consequences
    # that hold for ANY path are judged: every value stays within the range of the SELECTED series
    probs = []

    def addp(name, fn):
        r = dtwx.guarded(fn)
        if dtwx.is_raised(r):
            probs.append({"route": name + ":raised", "lo": [[10 ** 7]], "hi": [[-10 ** 7]]})
            return
        a = np().asarray(r, dtype=float)
        if nd == 1:
            a = a.reshape(-1, 1)
        if not np().all(np().isfinite(a)) or np().any(np().abs(a) > 1e6):
            probs.append({"route": name + ":not-finite", "lo": [[10 ** 7]], "hi": [[-10 ** 7]]})
            return
        probs.append({"route": name, "lo": [[int(math.floor(x * 1000)) for x in row] for row in a],
                      "hi": [[int(math.ceil(x * 1000)) for x in row] for row in a]})

    for nbs in it.get("prob_samples", []):
        def cprob(container, _n=nbs):
            c = avg.copy()
            if flat:
                dtw_cc.dba(container, c, mask=packed, nb_prob_samples=_n, **kwc)
            else:
                dtw_cc.dba_ndim(container, c, mask=packed, nb_prob_samples=_n, ndim=nd, **kwc)
            return c
        addp("c:dtw_cc.dba[list,prob=%d]" % nbs, lambda: cprob(ser))
        if equal:
            from dtaidistance.util import SeriesContainer
            addp("c:dtw_cc.dba[matrix container,prob=%d]" % nbs, lambda: cprob(SeriesContainer.wrap(np().array(ser))))
    return {"id": it["id"], "routes": routes, "news": news, "dns": dns, "loops": loops, "probs": probs}
