"""Worker-side execution of hierarchical-clustering histories (C15)."""
import math

from . import dtwx

_np = None


def np():
    global _np
    if _np is None:
        import numpy
        _np = numpy
    return _np


def enc(x):
    x = float(x)
    if math.isinf(x):
        return -1
    if x != x or abs(x - round(x)) > 1e-9 or x < 0:
        return -2
    return int(round(x))


def full_matrix(m, n, only_triu):
    a = np().full((n, n), np().inf)
    for r in range(n):
        for c in range(r + 1, n):
            v = np().inf if m[r][c] < 0 else float(m[r][c])
            a[r, c] = v
            if not only_triu:
                a[c, r] = v
    if not only_triu:
        np().fill_diagonal(a, 0)
    return a


def run_c15(it):
    from dtaidistance import dtw
    from dtaidistance.clustering import hierarchical as H
    n = it["n"]
    fits = []
    models = {}
    for fi, f in enumerate(it["fits"]):
        captured = []
        events = []
        kind = f["kind"]
        if f["source"] == "matrix":
            mat = it["matrices"][f["matrix"]]
            series = [np().array([float(i)]) for i in range(n)]

            def fun(s, _mat=mat, **opts):
                m = full_matrix(_mat, n, bool(opts.get("only_triu", False)))
                captured.append(m.copy())
                return m
            opts = {}
            if f.get("triu_false"):
                opts["only_triu"] = False       # the merge loop needs the upper triangle: fit() has to insist on it
        else:
            series = [np().array([x[0] for x in s], dtype=np().double) for s in it["series"][f["matrix"]]]
            real = dtw.distance_matrix_fast if f["source"] == "dtw_fast" else dtw.distance_matrix

            def fun(s, _real=real, **opts):
                if _real is dtw.distance_matrix_fast:
                    opts = dict(opts, parallel=False)
                m = _real(s, **opts)
                captured.append(np().array(m).copy())
                return m
            opts = {"inner_dist": "euclidean"}
            if f.get("window"):
                opts["window"] = f["window"]
            if f.get("triu_false") and f["kind"] != "linkage":
                opts["only_triu"] = False
        # threshold between two attainable distances (+0.5) or EXACTLY an attainable one ("within max_dist" is <=)
        maxd = float("inf") if f["maxdist"] < 0 else float(f["maxdist"]) + (0.0 if f.get("exact") else 0.5)

        def hook(frm, to, dist, _f=f):
            # (HierarchicalTree ignores the value returned by the user's hook: no side swapping there)
            if _f.get("swap") and _f["kind"] == "hier" and (len(events) % 2 == 0):
                events.append([int(to), int(frm), enc(dist)])
                return (frm, to)           # the other side survives
            events.append([int(frm), int(to), enc(dist)])
            return None
        order = None
        if f.get("order") == "last":
            def order(idxs):
                return idxs[-1, :]
        route = "fit#%d:%s[%s%s%s%s%s%s]" % (fi, kind, f["source"], ",swap" if f.get("swap") else "",
                                            ",order=last" if order else "", ",reuse" if f.get("reuse") else "",
                                            ",exact" if f.get("exact") else "", ",only_triu" if f.get("only_triu") else "") \
            + (",triu_false" if f.get("triu_false") else "") + (",tree_maxdist" if f.get("tree_maxdist") else "")
        route = route.replace("]", "") + "]"
        try:
            key = (kind, f["source"], f.get("swap"), f.get("order")) if kind != "tree" else (kind, f["source"])
            if kind == "hier":
                if f.get("reuse") and key in models:
                    model = models[key]
                    model.dists_fun = fun
                    model.merge_hook = hook
                    model.max_dist = maxd
                else:
                    model = H.Hierarchical(fun, dict(opts), max_dist=maxd, merge_hook=hook, order_hook=order,
                                           show_progress=False)
                    models[key] = model
                res = model.fit(series)
                link = []
                tree = False
            elif kind == "tree":
                if f.get("reuse") and key in models:
                    # fit the same tree object again (with this fit's distance function and hook)
                    model = models[key]
                    model._model.dists_fun = fun
                    model._model.merge_hook = hook
                else:
                    extra = {}
                    if f.get("tree_maxdist") and not math.isinf(maxd):
                        extra["max_dist"] = maxd     # documented: reset to infinity, the tree stays single-rooted
                    model = H.HierarchicalTree(dists_fun=fun, dists_options=dict(opts), merge_hook=hook,
                                               order_hook=order, show_progress=False, **extra)
                    models[key] = model
                res = model.fit(series)
                link = [[int(a), int(b), enc(d)] for (a, b, d, _c) in model.linkage]
                tree = True
                maxd = float("inf")
            else:
                from scipy.cluster.hierarchy import linkage
                lopts = dict(opts)
                if f.get("only_triu"):
                    lopts["only_triu"] = True        # the matrix handed over is then NOT symmetric
                model = H.LinkageTree(fun, lopts, method=f.get("method", "complete"))
                got = model.fit(series)
                m = captured[-1]
                cond = [m[r, c] for r in range(n) for c in range(r + 1, n)]
                want = linkage(np().array(cond), method=f.get("method", "complete"), metric="euclidean")
                same = bool(np().array_equal(np().asarray(got), want)) and bool(np().array_equal(np().asarray(model.linkage), want))
                mm = [[enc(m[r, c]) if c > r else -1 for c in range(n)] for r in range(n)]
                fits.append({"route": route, "kind": "linkage", "matrix": mm, "condensed": [enc(x) for x in cond],
                             "same": same, "maxdist": -1, "events": [], "result": [], "tree": False, "linkage": []})
                continue
            m = captured[-1]
            mm = [[enc(m[r, c]) if c > r else -1 for c in range(n)] for r in range(n)]
            result = [[int(k), sorted(int(x) for x in v)] for k, v in sorted(res.items())]
            fits.append({"route": route, "kind": kind, "matrix": mm, "maxdist": -1 if math.isinf(maxd) else int(maxd),
                         "events": events, "result": result, "tree": tree, "linkage": link, "condensed": [],
                         "same": True})
        except Exception as exc:
            fits.append({"route": route + ":raised:" + type(exc).__name__, "kind": kind if kind != "linkage" else "hier",
                         "matrix": [[-1] * n for _ in range(n)], "maxdist": -1, "events": [[0, 0, -3]], "result": [],
                         "tree": False, "linkage": [], "condensed": [], "same": False})
    return {"id": it["id"], "fits": fits, "routes": [f["route"] for f in fits]}
