"""Driver for distance-matrix properties (C06, C07): items -> worker -> DMTrace records -> TLC."""
import itertools
import json

from . import build, core, tlc
from .dtwfamily import classify


def all_blocks(n):
    out = []
    for rb in range(n):
        for re in range(rb + 1, n + 1):
            for cb in range(n):
                for ce in range(cb + 1, n + 1):
                    for triu in (True, False):
                        out.append(([rb, re, cb, ce], triu))
    return out


def make_collection(rng, n, nd=1, equal=False, vals=(0, 1, 3, 6, 10)):
    """n short series with (mostly) distinct pairwise distances."""
    pts2 = [(0, 0), (3, 0), (0, 4), (3, 4)]
    L = rng.randint(1, 3)
    ser = []
    for i in range(n):
        l = L if equal else rng.randint(1, 3)
        if nd == 1:
            ser.append([[rng.choice(vals) + (i % 2)] for _ in range(l)])
        else:
            ser.append([list(rng.choice(pts2)) for _ in range(l)])
    return ser


def settings_template(rng, ser, inners=("sq", "eu"), psi=True):
    minlen = min(len(s) for s in ser)
    if psi and minlen > 1 and rng.random() < 0.4:
        # per-series relaxation, also asymmetric (begin of series 1 only, ...)
        pv = [rng.choice([0, 1]) for _ in range(4)]
        if rng.random() < 0.3:
            pv = [pv[0]] * 4
        pv = [min(x, minlen - 1) for x in pv]
    else:
        pv = [0, 0, 0, 0]
    return {"s1": [[0]], "s2": [[0]], "inner": rng.choice(list(inners)), "w": rng.choice([0, 0, 1, 2]),
            "pen": rng.choice([0, 0, 1]),
            # thresholds and the length limit as well: "the pairwise distances under the given settings"
            "ms": rng.choice([0, 0, 0, 3]), "md": rng.choice([0, 0, 0, 5, 9]), "mld": rng.choice([-1, -1, -1, 1, 2]),
            "psi": pv}


def dm_pass(ctx, src, items, worker, env=None):
    ctx.log("running %d distance-matrix cases (%s)" % (len(items), worker))
    outs = core.pool_map(src, "harness.dmx", worker, items, env=env, chunksize=20)
    by_id = {}
    records = []
    nobs = 0
    for it, o in zip(items, outs):
        rec = {"id": it["id"], "kind": "dm", "n": it["n"], "ser": it["ser"], "set": it["set"], "blk": it["blk"],
               "triu": it["triu"]}
        if o.get("crashed"):
            o = {"lens": [["PROCESS-CRASH", -5]], "idxs": [], "compact": [], "square": [], "aidx": [], "events": [],
                 "plans": [], "routes": ["PROCESS-CRASH"]}
        for k, v in o.items():
            if k != "id":
                rec[k] = v
        rec.setdefault("lens", [])
        it["_rec"] = rec
        by_id[it["id"]] = it
        records.append(rec)
        nobs += len(rec["routes"])
    ctx.evaluations += nobs
    ctx.log("Act T: TLC judges %d records (%d observations)" % (len(records), nobs))
    res = tlc.validate_traces("DMTrace", "DMTrace.cfg", records, chunk=200, canary_fields=["compact"])
    ctx.add_tv(res)
    classify(ctx, by_id, res["fails"])
    if not isinstance(ctx.nontrivial, set):
        ctx.nontrivial = set()
    for it in items:
        rb, re, cb, ce = it["blk"]
        if not it["noblock"]:
            ctx.nontrivial.add(json.dumps([it["n"], it["blk"], it["triu"], it["ser"], it["set"]], sort_keys=True))
    ctx.samples += [it["_rec"] for it in items[:: max(1, len(items) // 3)]][:3]
