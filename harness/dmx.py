"""Worker-side execution of distance-matrix cases (C06, C07).

An item: {id, n, ser: [series as lists of points], set: settings template (DTWCore case without s1/s2),
          S, blk: [rb, re, cb, ce], triu: bool, noblock: bool}
"""
import ctypes
import os

from . import dtwx

_np = None


def np():
    global _np
    if _np is None:
        import numpy
        _np = numpy
    return _np


def case_of(it):
    c = dict(it["set"])
    c["S"] = it["S"]
    c["s1"] = it["ser"][0]
    c["s2"] = it["ser"][0]
    return c


def block_arg(it):
    if it["noblock"]:
        return None
    rb, re, cb, ce = it["blk"]
    if it["triu"]:
        return ((rb, re), (cb, ce))
    return ((rb, re), (cb, ce), False)


def user_series(it, kind="numpy"):
    S = it["S"]
    nd = len(it["ser"][0][0])
    out = []
    for s in it["ser"]:
        if nd == 1:
            vals = [p[0] / S for p in s]
        else:
            vals = [[x / S for x in p] for p in s]
        if kind == "list":
            out.append(vals)
        else:
            out.append(np().array(vals, dtype=np().double))
    return out


def enc_vals(c, vals):
    try:
        return [dtwx.enc_cost(c, v) for v in vals]
    except Exception:
        return [dtwx.OFF_LATTICE]


def enc_square(c, m):
    try:
        return [[dtwx.enc_cost(c, v) for v in row] for row in m]
    except Exception:
        return [[dtwx.OFF_LATTICE]]


def _compact(c, name, fn, out):
    r = dtwx.guarded(fn)
    if dtwx.is_raised(r):
        out.append({"route": name + ":raised", "vals": [dtwx.RAISED]})
    else:
        out.append({"route": name, "vals": enc_vals(c, list(r))})


def _native_matrix(it, c, fn_name, parallel=False, threads=None, layout="ptrs", hooks=False, lib=None):
    """Direct call of dtw_distances_* with an output buffer of exactly the advertised length."""
    from . import native
    lib = lib or native.lib("plain")
    L = lib.L
    n = it["n"]
    nd = len(it["ser"][0][0])
    st = lib.settings(c)
    rb, re, cb, ce = (0, 0, 0, 0) if it["noblock"] else it["blk"]
    blk = native.DTWBlock(rb, re, cb, ce, it["triu"])
    length = L.dtw_distances_length(ctypes.byref(blk), n, n)
    out = native.Buf(max(length, 0), fill=float("nan"))
    bufs = [out]
    try:
        flat = []
        lens = []
        for s in it["ser"]:
            f = [x / it["S"] for p in s for x in p]
            flat.append(f)
            lens.append(len(s))
        if layout == "ptrs":
            sb = [native.Buf(len(f), fill=f) for f in flat]
            bufs += sb
            PT = (native.P_seq * n)(*[b.ptr for b in sb])
            LN = (native.idx_t * n)(*lens)
            f = getattr(L, fn_name)
            if nd == 1 and "ndim" not in fn_name:
                got = f(PT, n, LN, out.ptr, ctypes.byref(blk), st)
            else:
                got = f(PT, n, LN, nd, out.ptr, ctypes.byref(blk), st)
        else:   # one matrix (all series have the same length)
            allf = [x for f in flat for x in f]
            mb = native.Buf(len(allf), fill=allf)
            bufs.append(mb)
            f = getattr(L, fn_name)
            if "matrices" in fn_name:
                if nd == 1 and "ndim" not in fn_name:
                    got = f(mb.ptr, n, lens[0], mb.ptr, n, lens[0], out.ptr, ctypes.byref(blk), st)
                else:
                    got = f(mb.ptr, n, lens[0], mb.ptr, n, lens[0], nd, out.ptr, ctypes.byref(blk), st)
            elif nd == 1 and "ndim" not in fn_name:
                got = f(mb.ptr, n, lens[0], out.ptr, ctypes.byref(blk), st)
            else:
                got = f(mb.ptr, n, lens[0], nd, out.ptr, ctypes.byref(blk), st)
        for b in bufs:
            b.check(fn_name)
        if got != length:
            return ["length-mismatch"]
        return out.tolist()
    finally:
        for b in bufs:
            b.free()


def _native_two_sets(it, c, fn_name, nr, nc, noblock, lib=None):
    """dtw_distances_(ndim_)matrices on TWO collections of different sizes: the first nr series as rows, the first
    nc as columns (equal-length series), output buffer of exactly dtw_distances_length(block, nr, nc) elements.
    With the case's block (re <= nr, ce <= nc), or without a block when the block is (0..nr) x (0..nc): both
    select the same (row, column) pairs as the one-collection call the record is judged against."""
    from . import native
    lib = lib or native.lib("plain")
    L = lib.L
    nd = len(it["ser"][0][0])
    st = lib.settings(c)
    rb, re, cb, ce = (0, 0, 0, 0) if noblock else it["blk"]
    blk = native.DTWBlock(rb, re, cb, ce, it["triu"])
    length = L.dtw_distances_length(ctypes.byref(blk), nr, nc)
    out = native.Buf(max(length, 0), fill=float("nan"))
    allf = [x / it["S"] for s in it["ser"] for p in s for x in p]
    mb = native.Buf(len(allf), fill=allf)
    ln = len(it["ser"][0])
    try:
        f = getattr(L, fn_name)
        if nd == 1 and "ndim" not in fn_name:
            got = f(mb.ptr, nr, ln, mb.ptr, nc, ln, out.ptr, ctypes.byref(blk), st)
        else:
            got = f(mb.ptr, nr, ln, mb.ptr, nc, ln, nd, out.ptr, ctypes.byref(blk), st)
        out.check(fn_name)
        mb.check(fn_name)
        if got != length:
            return ["length-mismatch"]
        return out.tolist()
    finally:
        out.free()
        mb.free()


def _two_set_routes(it, c, nd, compact):
    if it["noblock"]:
        return
    rb, re, cb, ce = it["blk"]
    n = it["n"]
    fn = "dtw_distances_matrices" if nd == 1 else "dtw_distances_ndim_matrices"
    sizes = {(re, ce), (n, ce), (re, n)}
    for (nr, nc) in sorted(sizes):
        if nr == nc == n:
            continue
        _compact(c, "native:%s[%d rows x %d columns]" % (fn, nr, nc),
                 lambda: _native_two_sets(it, c, fn, nr, nc, False), compact)
    if rb == 0 and cb == 0 and (re, ce) != (n, n):
        _compact(c, "native:%s[%d rows x %d columns, no block]" % (fn, re, ce),
                 lambda: _native_two_sets(it, c, fn, re, ce, True), compact)


def run_c06(it):
    from dtaidistance import dtw, dtw_cc, dtw_ndim
    c = case_of(it)
    n = it["n"]
    nd = len(it["ser"][0][0])
    blk = block_arg(it)
    kw = dtwx.settings(c)
    kw.pop("use_ndim", None)
    sl = user_series(it, "list")
    sn = user_series(it, "numpy")
    equal = len({len(s) for s in it["ser"]}) == 1
    lens, idxs, compact, square, aidx = [], [], [], [], []
    # lengths
    rb, re, cb, ce = it["blk"]

    def glen(name, fn):
        r = dtwx.guarded(fn)
        lens.append([name, -3 if (dtwx.is_raised(r)) else int(r)])
    # private helpers are observed only while they exist (renaming them is no violation of the property)
    if hasattr(dtw, "_distance_matrix_length"):
        glen("py:_distance_matrix_length", lambda: dtw._distance_matrix_length(blk, n))
    if it["noblock"]:
        glen("c:dtw_cc.distance_matrix_length", lambda: dtw_cc.distance_matrix_length(dtw_cc.DTWBlock(0, 0, 0, 0), n))
    else:
        glen("c:dtw_cc.distance_matrix_length",
             lambda: dtw_cc.distance_matrix_length(dtw_cc.DTWBlock(rb, re, cb, ce, triu=it["triu"]), n))
    # index lists
    if hasattr(dtw, "_distance_matrix_idxs"):
        r = dtwx.guarded(lambda: dtw._distance_matrix_idxs(blk, n))
        if dtwx.is_raised(r):
            idxs.append({"route": "py:_distance_matrix_idxs:raised", "r": [-3], "c": [-3]})
        else:
            idxs.append({"route": "py:_distance_matrix_idxs", "r": [int(x) for x in r[0]], "c": [int(x) for x in r[1]]})
    # compact results
    if nd == 1:
        _compact(c, "py:dtw.distance_matrix[list]", lambda: dtw.distance_matrix(sl, block=blk, compact=True, **kw), compact)
        _compact(c, "py:dtw.distance_matrix[numpy list]",
                 lambda: dtw.distance_matrix(sn, block=blk, compact=True, **kw), compact)
        _compact(c, "c:dtw.distance_matrix_fast[serial]",
                 lambda: dtw.distance_matrix_fast(sn, block=blk, compact=True, parallel=False, **kw), compact)
        _compact(c, "c:dtw.distance_matrix[use_c]",
                 lambda: dtw.distance_matrix(sn, block=blk, compact=True, use_c=True, **kw), compact)
        if equal:
            mat = np().array(sn)
            _compact(c, "py:dtw.distance_matrix[2-D array]",
                     lambda: dtw.distance_matrix(mat, block=blk, compact=True, **kw), compact)
            _compact(c, "c:dtw.distance_matrix_fast[2-D array]",
                     lambda: dtw.distance_matrix_fast(mat, block=blk, compact=True, parallel=False, **kw), compact)
            _compact(c, "native:dtw_distances_matrix",
                     lambda: _native_matrix(it, c, "dtw_distances_matrix", layout="matrix"), compact)
            _compact(c, "native:dtw_distances_matrices",
                     lambda: _native_matrix(it, c, "dtw_distances_matrices", layout="matrix"), compact)
            _two_set_routes(it, c, nd, compact)
        _compact(c, "native:dtw_distances_ptrs", lambda: _native_matrix(it, c, "dtw_distances_ptrs"), compact)
    else:
        _compact(c, "py:dtw_ndim.distance_matrix[list]",
                 lambda: dtw_ndim.distance_matrix(sn, block=blk, compact=True, **kw), compact)
        _compact(c, "c:dtw_ndim.distance_matrix_fast[serial]",
                 lambda: dtw_ndim.distance_matrix_fast(sn, block=blk, compact=True, parallel=False, **kw), compact)
        # members in Fortran order: the C engine needs its own C-ordered copies
        sf = [np().asfortranarray(x) for x in sn]
        _compact(c, "c:dtw_ndim.distance_matrix_fast[F-ordered members]",
                 lambda: dtw_ndim.distance_matrix_fast(sf, block=blk, compact=True, parallel=False, **kw), compact)
        if equal:
            cube = np().array(sn)
            _compact(c, "py:dtw_ndim.distance_matrix[3-D array]",
                     lambda: dtw_ndim.distance_matrix(cube, block=blk, compact=True, **kw), compact)
            _compact(c, "c:dtw_ndim.distance_matrix_fast[3-D array]",
                     lambda: dtw_ndim.distance_matrix_fast(cube, block=blk, compact=True, parallel=False, **kw), compact)
            _compact(c, "native:dtw_distances_ndim_matrix",
                     lambda: _native_matrix(it, c, "dtw_distances_ndim_matrix", layout="matrix"), compact)
            _compact(c, "native:dtw_distances_ndim_matrices",
                     lambda: _native_matrix(it, c, "dtw_distances_ndim_matrices", layout="matrix"), compact)
            _two_set_routes(it, c, nd, compact)
        _compact(c, "native:dtw_distances_ndim_ptrs", lambda: _native_matrix(it, c, "dtw_distances_ndim_ptrs"), compact)
    # square forms (triangular blocks only: a non-triangular block requires compact=True)
    if it["triu"]:
        for onlytriu in (False, True):
            for name, fn in (("py:dtw.distance_matrix[square]",
                              lambda: (dtw.distance_matrix if nd == 1 else dtw_ndim.distance_matrix)(
                                  sn, block=blk, only_triu=onlytriu, **kw)),
                             ("c:dtw.distance_matrix_fast[square]",
                              lambda: (dtw.distance_matrix_fast if nd == 1 else dtw_ndim.distance_matrix_fast)(
                                  sn, block=blk, only_triu=onlytriu, parallel=False, **kw))):
                r = dtwx.guarded(fn)
                tag = name + ("[only_triu]" if onlytriu else "")
                if dtwx.is_raised(r):
                    square.append({"route": tag + ":raised", "onlytriu": onlytriu, "mat": [[dtwx.RAISED]]})
                else:
                    square.append({"route": tag, "onlytriu": onlytriu, "mat": enc_square(c, r)})
    if it["noblock"]:
        for a in range(n):
            for b in range(n):
                if a != b:
                    aidx.append([a, b, int(dtw.distance_array_index(a, b, n))])
    routes = [x[0] for x in lens] + [x["route"] for x in idxs + compact + square]
    return {"id": it["id"], "lens": lens, "idxs": idxs, "compact": compact, "square": square, "aidx": aidx,
            "events": [], "plans": [], "routes": routes}


# ---------------------------------------------------------------------------------------------
# C07: parallel routes
_gomp = None


def set_threads(k):
    global _gomp
    if _gomp is None:
        _gomp = ctypes.CDLL("libgomp.so.1")
    _gomp.omp_set_num_threads(int(k))
    _gomp.omp_set_dynamic(0)


class FakePool:
    """In-process stand-in for multiprocessing.Pool: tasks complete in a seeded random order.
    map / imap / starmap return in task order (their contract); imap_unordered in completion order."""

    def __init__(self, *a, seed=0, **k):
        import random
        self.rng = random.Random(seed)

    def __enter__(self):
        return self

    def __exit__(self, *a):
        return False

    def _run(self, fn, items):
        items = list(items)
        order = list(range(len(items)))
        self.rng.shuffle(order)
        done = []
        res = [None] * len(items)
        for i in order:
            res[i] = fn(items[i])
            done.append(res[i])
        return res, done

    def map(self, fn, items, chunksize=None):
        return self._run(fn, items)[0]

    def imap(self, fn, items, chunksize=None):
        return iter(self._run(fn, items)[0])

    def imap_unordered(self, fn, items, chunksize=None):
        return iter(self._run(fn, items)[1])

    def map_async(self, fn, items, chunksize=None):
        res = self._run(fn, items)[0]

        class R:
            def get(self, timeout=None):
                return res
        return R()

    def close(self):
        pass

    def join(self):
        pass

    def terminate(self):
        pass


def _native_plan(it):
    from . import native
    lib = native.lib("plain")
    n = it["n"]
    rb, re, cb, ce = (0, 0, 0, 0) if it["noblock"] else it["blk"]
    blk = native.DTWBlock(rb, re, cb, ce, it["triu"])
    st = lib.settings(case_of(it))
    cbs = native.P_idx()
    rls = native.P_idx()
    length = native.idx_t(0)
    rc = lib.L.dtw_distances_prepare(ctypes.byref(blk), n, n, ctypes.byref(cbs), ctypes.byref(rls),
                                     ctypes.byref(length), st)
    nrows = it["blk"][1] - it["blk"][0]
    out = {"route": "native:dtw_distances_prepare", "length": int(length.value), "cbs": [], "rls": []}
    if rc == 0 and it["triu"] and bool(cbs) and bool(rls):
        out["cbs"] = [int(cbs[i]) for i in range(nrows)]
        out["rls"] = [int(rls[i]) for i in range(nrows)]
        libc = ctypes.CDLL(None)
        libc.free.argtypes = [ctypes.c_void_p]
        libc.free(ctypes.cast(cbs, ctypes.c_void_p))
        libc.free(ctypes.cast(rls, ctypes.c_void_p))
    return out


def run_c07(it):
    import multiprocessing
    from dtaidistance import dtw, dtw_ndim
    c = case_of(it)
    n = it["n"]
    nd = len(it["ser"][0][0])
    blk = block_arg(it)
    kw = dtwx.settings(c)
    kw.pop("use_ndim", None)
    sl = user_series(it, "list")
    sn = user_series(it, "numpy")
    equal = len({len(s) for s in it["ser"]}) == 1
    compact, plans, lens = [], [], []
    mod = dtw if nd == 1 else dtw_ndim
    # serial references
    _compact(c, "serial:py", lambda: mod.distance_matrix(sn, block=blk, compact=True, **kw), compact)
    _compact(c, "serial:c", lambda: mod.distance_matrix_fast(sn, block=blk, compact=True, parallel=False, **kw), compact)
    # OpenMP through the extension and through direct calls, several thread counts
    for k in it["threads"]:
        set_threads(k)
        _compact(c, "omp[%d]:distance_matrix_fast" % k,
                 lambda: mod.distance_matrix_fast(sn, block=blk, compact=True, parallel=True, **kw), compact)
        if equal and nd == 1:
            mat = np().array(sn)
            _compact(c, "omp[%d]:distance_matrix_fast[2-D array]" % k,
                     lambda: dtw.distance_matrix_fast(mat, block=blk, compact=True, parallel=True, **kw), compact)
            _compact(c, "omp[%d]:native:dtw_distances_matrix_parallel" % k,
                     lambda: _native_matrix(it, c, "dtw_distances_matrix_parallel", layout="matrix"), compact)
            _compact(c, "omp[%d]:native:dtw_distances_matrices_parallel" % k,
                     lambda: _native_matrix(it, c, "dtw_distances_matrices_parallel", layout="matrix"), compact)
        if equal and nd > 1:
            cube = np().array(sn)
            _compact(c, "omp[%d]:dtw_ndim.distance_matrix_fast[3-D array]" % k,
                     lambda: dtw_ndim.distance_matrix_fast(cube, block=blk, compact=True, parallel=True, **kw), compact)
            _compact(c, "omp[%d]:native:dtw_distances_ndim_matrix_parallel" % k,
                     lambda: _native_matrix(it, c, "dtw_distances_ndim_matrix_parallel", layout="matrix"), compact)
            _compact(c, "omp[%d]:native:dtw_distances_ndim_matrices_parallel" % k,
                     lambda: _native_matrix(it, c, "dtw_distances_ndim_matrices_parallel", layout="matrix"), compact)
        _compact(c, "omp[%d]:native:dtw_distances%s_ptrs_parallel" % (k, "_ndim" if nd > 1 else ""),
                 lambda: _native_matrix(it, c, "dtw_distances_ndim_ptrs_parallel" if nd > 1
                                        else "dtw_distances_ptrs_parallel"), compact)
    set_threads(1)
    # multiprocessing branches with a pool whose tasks complete in a seeded random order
    real_pool = multiprocessing.Pool
    try:
        for seed in it["mpseeds"]:
            multiprocessing.Pool = lambda *a, **k2: FakePool(seed=seed)
            _compact(c, "mp[order %d]:py" % seed,
                     lambda: mod.distance_matrix(sn, block=blk, compact=True, parallel=True, **kw), compact)
            _compact(c, "mp[order %d]:c" % seed,
                     lambda: mod.distance_matrix(sn, block=blk, compact=True, parallel=True, use_c=True, use_mp=True,
                                                 **kw), compact)
    finally:
        multiprocessing.Pool = real_pool
    for size in it.get("realpools", []):
        multiprocessing.Pool = lambda *a, **k2: real_pool(size)
        try:
            _compact(c, "mp[real pool %d]:py" % size,
                     lambda: mod.distance_matrix(sl if nd == 1 else sn, block=blk, compact=True, parallel=True, **kw),
                     compact)
            _compact(c, "mp[real pool %d]:c" % size,
                     lambda: mod.distance_matrix(sn, block=blk, compact=True, parallel=True, use_c=True, use_mp=True,
                                                 **kw), compact)
        finally:
            multiprocessing.Pool = real_pool
    r = dtwx.guarded(lambda: _native_plan(it))
    if dtwx.is_raised(r):
        plans.append({"route": "native:dtw_distances_prepare:raised", "length": -3, "cbs": [], "rls": []})
    else:
        plans.append(r)
    return {"id": it["id"], "lens": lens, "idxs": [], "compact": compact, "square": [], "aidx": [], "events": [],
            "plans": plans, "routes": [x["route"] for x in compact + plans]}


# ---------------------------------------------------------------------------------------------
# C07 binding 3: the real loop bodies under imposed schedules (native/gomp_shim.c instead of libgomp)
def run_c07_shim(it):
    import itertools
    import random
    from . import build, native
    lib = native.lib_at(build.native_lib("shim"))
    L = lib.L
    L.shim_set_script.argtypes = [ctypes.c_int, ctypes.c_long, ctypes.POINTER(ctypes.c_int),
                                  ctypes.POINTER(ctypes.c_long)]
    c = case_of(it)
    nd = len(it["ser"][0][0])
    equal = len({len(s) for s in it["ser"]}) == 1
    nrows = it["blk"][1] - it["blk"][0]
    rng = random.Random("shim-%s" % it["id"])
    fns = ["dtw_distances_ndim_ptrs_parallel" if nd > 1 else "dtw_distances_ptrs_parallel"]
    if equal:
        fns.append("dtw_distances_ndim_matrix_parallel" if nd > 1 else "dtw_distances_matrix_parallel")
    scripts = []
    for T in it["shim_threads"]:
        if nrows <= 3 and T <= 2:
            for perm in itertools.permutations(range(nrows)):
                for assign in itertools.product(range(T), repeat=nrows):
                    scripts.append((T, list(zip(assign, perm))))
        else:
            for _ in range(it["shim_samples"]):
                perm = list(range(nrows))
                rng.shuffle(perm)
                scripts.append((T, [(rng.randrange(T), r) for r in perm]))
    # mode 1 (cell-granular): iteration order x a choice at every scheduling point (iteration request, before
    # and after every kernel call, thread exit).  Always: strict round-robin (maximal interleaving), reversed
    # round-robin, one-thread-first; plus seeded random choice sequences.
    has_plan = hasattr(L, "shim_set_plan")
    plans = []
    if has_plan:
        L.shim_set_plan.argtypes = [ctypes.c_int, ctypes.c_long, ctypes.POINTER(ctypes.c_long), ctypes.c_long,
                                    ctypes.POINTER(ctypes.c_int)]
        ncols = it["blk"][3] - it["blk"][2]
        npoints = min(4000, 2 + nrows * (2 * max(1, ncols) + 2) * 2)
        for T in it["shim_threads"]:
            orders = [list(range(nrows)), list(range(nrows))[::-1]]
            for order in orders:
                plans.append((T, order, [k % T for k in range(1, npoints + 1)], "rr"))
                plans.append((T, order, [(-k) % T for k in range(1, npoints + 1)], "rrr"))
            for _ in range(it.get("shim_plans", it["shim_samples"])):
                order = list(range(nrows))
                rng.shuffle(order)
                # random with runs: stay on a thread for a geometric number of points
                ch = []
                cur = rng.randrange(T)
                while len(ch) < npoints:
                    ch.extend([cur] * rng.choice((1, 1, 1, 2, 3, 5)))
                    cur = rng.randrange(T)
                plans.append((T, order, ch[:npoints], "rnd"))
    compact = []
    serial = None
    shown = 0
    nrun = 0
    for fn in fns:
        layout = "matrix" if "matrix" in fn else "ptrs"
        serial_fn = fn.replace("_parallel", "")
        ref = dtwx.guarded(lambda: _native_matrix(it, c, serial_fn, layout=layout, lib=lib))
        compact.append({"route": "shim:serial:" + serial_fn,
                        "vals": [dtwx.RAISED] if dtwx.is_raised(ref) else enc_vals(c, ref)})
        for (T, script) in scripts:
            th, its_ = zip(*script) if script else ((), ())
            L.shim_set_script(T, len(script), (ctypes.c_int * max(1, len(script)))(*th),
                              (ctypes.c_long * max(1, len(script)))(*its_))
            r = dtwx.guarded(lambda: _native_matrix(it, c, fn, layout=layout, lib=lib))
            nrun += 1
            err = L.shim_last_error()
            deviant = dtwx.is_raised(r) or dtwx.is_raised(ref) or err != 0 or \
                [repr(x) for x in r] != [repr(x) for x in ref]
            if deviant or shown < 2:
                shown += 1
                name = "shim[T=%d,%s]:%s%s" % (T, ";".join("%d>%d" % (a, b) for a, b in script), fn,
                                              (":shim-error-%d" % err) if err else "")
                compact.append({"route": name, "vals": [dtwx.RAISED] if dtwx.is_raised(r) else enc_vals(c, r)})
            if len(compact) > 12:
                break
        shown1 = 0
        for (T, order, ch, tag) in plans:
            L.shim_set_plan(T, len(order), (ctypes.c_long * max(1, len(order)))(*order), len(ch),
                            (ctypes.c_int * max(1, len(ch)))(*ch))
            r = dtwx.guarded(lambda: _native_matrix(it, c, fn, layout=layout, lib=lib))
            nrun += 1
            err = L.shim_last_error()
            deviant = dtwx.is_raised(r) or dtwx.is_raised(ref) or err != 0 or \
                [repr(x) for x in r] != [repr(x) for x in ref]
            if deviant or shown1 < 1:
                shown1 += 1
                name = "shimcell[T=%d,order=%s,%s%s]:%s%s" % (
                    T, "".join(map(str, order)), tag, "" if tag != "rnd" else ":" + "".join(map(str, ch[:24])), fn,
                    (":shim-error-%d" % err) if err else "")
                compact.append({"route": name, "vals": [dtwx.RAISED] if dtwx.is_raised(r) else enc_vals(c, r)})
            if len(compact) > 16:
                break
    return {"id": it["id"], "lens": [], "idxs": [], "compact": compact, "square": [], "aidx": [], "events": [],
            "plans": [], "routes": [x["route"] for x in compact], "schedules": nrun}
