"""Parent side for C08: run batches of native calls in ASan+UBSan child processes; identify culprits."""
import json
import os
import subprocess
import tempfile
from concurrent.futures import ThreadPoolExecutor

from . import build, tlc

PY = "/venv/bin/python"


def libasan():
    return subprocess.run(["gcc", "-print-file-name=libasan.so"], capture_output=True, text=True).stdout.strip()


def _run_batch(libpath, items, d, tag):
    """Returns (calls, failures) where failures = list of (item, report)."""
    fails = []
    calls = 0
    rest = list(items)
    rnd = 0
    while rest:
        rnd += 1
        bf = os.path.join(d, "batch-%s-%d.json" % (tag, rnd))
        pf = os.path.join(d, "prog-%s-%d.txt" % (tag, rnd))
        json.dump(rest, open(bf, "w"))
        env = dict(os.environ)
        env["LD_PRELOAD"] = libasan()
        env["ASAN_OPTIONS"] = "detect_leaks=0:abort_on_error=1:halt_on_error=1:allocator_may_return_null=1"
        env["UBSAN_OPTIONS"] = "halt_on_error=1:print_stacktrace=1"
        env["OMP_NUM_THREADS"] = "3"
        r = subprocess.run([PY, os.path.join(os.path.dirname(__file__), "asan_worker.py"), libpath, bf, pf],
                           capture_output=True, text=True, env=env, timeout=3600)
        started, done = [], set()
        if os.path.exists(pf):
            for line in open(pf):
                p = line.split()
                if p and p[0] == "S":
                    started.append(p[1])
                elif p and p[0] == "D":
                    done.add(p[1])
                    calls += int(p[2])
        if r.returncode == 0:
            break
        culprit = [s for s in started if s not in done]
        if not culprit:
            raise RuntimeError("ASan child failed outside a case:\n" + r.stderr[-3000:])
        cid = culprit[-1]
        idx = [i for i, it in enumerate(rest) if it["id"] == cid][0]
        err = r.stderr
        k = err.find("ERROR: AddressSanitizer")
        if k < 0:
            k = err.find("runtime error:")
        k = max(0, k - 200) if k >= 0 else max(0, len(err) - 3000)
        fails.append((rest[idx], err[k:k + 3500]))
        rest = rest[idx + 1:]
    return calls, fails


def run(items, parallel=14, batch=400):
    libpath = build.native_lib("asan")
    d = tempfile.mkdtemp(prefix="asan-", dir=tlc.run_dir())
    batches = [items[i:i + batch] for i in range(0, len(items), batch)]
    calls = 0
    fails = []
    with ThreadPoolExecutor(parallel) as ex:
        futs = [ex.submit(_run_batch, libpath, b, d, str(i)) for i, b in enumerate(batches)]
        for f in futs:
            c, fl = f.result()
            calls += c
            fails += fl
    return calls, fails
