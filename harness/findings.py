"""Known-finding classes: predicates over (case, rejected clause).

/verif/known_findings.jsonl lists findings; an entry of status "known" names a class defined here.
A rejected record is covered by a finding only if it lies in the class; everything else in the
same property is still a VIOLATION.  The file is never written at run time.
"""
import re


def _band_last_row_cols(c):
    """Number of in-band columns on the last row (matrix columns), for the psi epilogue class."""
    l1, l2 = len(c["s1"]), len(c["s2"])
    w = c["w"] or max(l1, l2)
    i = l1 - 1
    j_start = max(0, i - max(0, l1 - l2) - w + 1)
    return l2 - j_start


PREDICATES = {}


def predicate(name):
    def deco(fn):
        PREDICATES[name] = fn
        return fn
    return deco


def matches(f, case, clause):
    if "routes" in f and not re.search(f["routes"], clause):
        return False
    fn = PREDICATES.get(f.get("class"))
    if fn is None:
        return False
    return bool(fn(case, clause))


@predicate("expand_slice_subrange")
def _expand_slice_subrange(case, clause):
    """dtw_expand_wps_slice called for a proper sub-range of the matrix (anything but [0:l1+1, 0:l2+1])."""
    m = re.search(r"expand_slice\[(\d+):(\d+),(\d+):(\d+)\]", clause)
    if not m:
        return False
    rb, re_, cb, ce = map(int, m.groups())
    l1, l2 = len(case["s1"]), len(case["s2"])
    return not (rb == 0 and cb == 0 and re_ == l1 + 1 and ce == l2 + 1)


@predicate("psi_end_backtrack")
def _psi_end_backtrack(case, clause):
    """Backtracking from a matrix whose relaxed end is marked with -1: the first move out of a marked
    cell is chosen by predecessor cost instead of following the marks, so the path may miss the chosen
    end point: the traced path then stops in a cell that is not an admissible end (clause "end"), or is empty.
    A path that reaches an admissible end but whose cost is not the optimum (clause "cost") is NOT this
    finding: leaving the marks towards a cheaper predecessor never lands in the relaxed last row / column
    again (0 of 2240 known hits of the quick tier), so a cost deviation under psi is reported."""
    if not (case["psi"][1] > 0 or case["psi"][3] > 0):
        return False
    return bool(re.search(r":(end|empty)$", clause))


@predicate("c08_expand_slice_subrange")
def _c08_expand_slice_subrange(case, clause):
    """ASan report inside dtw_expand_wps_slice for a proper sub-range of the matrix."""
    if case.get("kind") != "slice" or "dtw_expand_wps_slice" not in clause:
        return False
    rb, re_, cb, ce = case["slice"]
    return not (rb == 0 and cb == 0 and re_ == len(case["s1"]) + 1 and ce == len(case["s2"]) + 1)


@predicate("c19_reciprocal_quantile_a_not_reported")
def _c19_recip(case, clause):
    """distance_to_similarity(method='reciprocal', cover_quantile=...) derives `a` but reports only r."""
    return clause.startswith("d2s[reciprocal,cq]") and clause.endswith("re-application-differs")
