"""Debug helper: summarise a VERIF_DUMP_FAILS file by (clause, feature signature)."""
import collections
import json
import sys

F = json.load(open(sys.argv[1]))
print(len(F), "failing records")


def sig(c):
    l1, l2 = len(c["s1"]), len(c["s2"])
    w = c["w"] or max(l1, l2)
    f = []
    f.append("nd%d" % len(c["s1"][0]))
    f.append(c["inner"])
    if c["w"]: f.append("w")
    if w < max(l1, l2): f.append("cut")
    if c["pen"]: f.append("pen")
    if c["ms"]: f.append("ms")
    if c["md"]: f.append("md")
    if c["mld"] != -1: f.append("mld")
    if any(c["psi"]): f.append("psi")
    if c.get("prune"): f.append("prune")
    if l1 != l2: f.append("uneq")
    if c["S"] != 1: f.append("S%d" % c["S"])
    return " ".join(f)


cnt = collections.Counter()
ex = {}
for f in F:
    c = f["case"]
    rec = c.get("_rec", {})
    bad = []
    k = (f["clause"], sig(c))
    cnt[k] += 1
    ex.setdefault(k, f)
for k, v in sorted(cnt.items(), key=lambda kv: -kv[1])[:int(sys.argv[2]) if len(sys.argv) > 2 else 40]:
    c = ex[k]["case"]
    rec = c.get("_rec", {})
    print(v, k)
    print("     s1=%s s2=%s w=%s pen=%s ms=%s md=%s mld=%s psi=%s" % (
        [p if len(p) > 1 else p[0] for p in c["s1"]], [p if len(p) > 1 else p[0] for p in c["s2"]],
        c["w"], c["pen"], c["ms"], c["md"], c["mld"], c["psi"]))
    if rec:
        print("     ", list(zip(rec.get("routes", []), rec.get("obs", []))))
