"""Regenerates MANIFEST.json from the table below (kept valid at all times)."""
import json
import os

VERIF = os.path.dirname(os.path.dirname(os.path.abspath(__file__)))

BASE_OFF = ("cd /repo && env -u DTAIDISTANCE_VERIF /venv/bin/python -m pytest -ra -q -p no:cacheprovider "
            "--timeout=900 --continue-on-collection-errors")

CHECKS = {
    "C01": dict(
        level="model_checking", design="DESIGN.md 4/C01",
        technique="TLA+ spec (DTWCore) model-checked by TLC; implementation outputs trace-validated by TLC (DTWTrace)",
        text="TLC proves on exhaustive small slices that the cell-wise recurrence equals the minimum over explicitly "
             "enumerated admissible warping paths (declarative definition), then judges every recorded return value of "
             "dtw.distance (lists, array.array, NumPy, NumPy hidden; psi int/4-tuple) on exhaustive option slices and "
             "seeded larger cases against that specification, in an exact arithmetic domain (4 ulp).",
        note="Trusted: TLC, the exact-domain encoding (dyadic inputs; result = correctly rounded sqrt of an exact "
             "integer cost), the JSON trace transport. Generic doubles whose partial sums round are not covered."),
    "C02": dict(
        level="model_checking", design="DESIGN.md 4/C02",
        technique="TLA+ spec (DTWCore/DTWTrace) judges recorded outputs of every route into the C engine against the Python engine",
        text="Every case of the exhaustive option slices and the seeded larger cases is run through the pure-Python engine "
             "and 6-8 routes into the C engine (dtw.distance(use_c), distance_fast, dtw_cc.distance with the 0=off "
             "encodings, dtw_ndim.*, the serial C distance-matrix routine, and a direct ctypes call of "
             "dtw_distance(_ndim) compiled from /repo's C sources with asserts enabled); TLC judges agreement of all "
             "routes (both infinite or the same exact-domain value, 4 ulp) and notes where the reference deviates "
             "from the specification (decided under C01/C03). Options are drawn independently (use_pruning also with "
             "penalties on unequal lengths, max_step, max_dist, max_length_diff; thresholds on and off the cost lattice).",
        note="Trusted: TLC, exact-domain encoding, ctypes struct layout of DTWSettings (checked against dd_dtw.h by "
             "construction). Only settings accepted by both engines are compared (no custom inner distance, "
             "max_length_diff != 0)."),
    "C03": dict(
        level="model_checking", design="DESIGN.md 4/C03",
        technique="TLA+ state machine of PrunedDTW (DTWAlgo) model-checked against the declarative definition; recorded outputs trace-validated by TLC",
        text="TLC proves for every case of the slice that the PrunedDTW row machine with its sc/ec column bounds (psi-aware) "
             "never cuts a cell whose optimum is within the bound and returns DistSpec; a self-test requires TLC to refute "
             "the psi-unaware design. Every recorded result of distance, distance_fast, warping_paths(_fast, compact), "
             "distance_matrix(_fast) and the direct C call with max_dist / use_pruning is judged against the spec "
             "(thresholds at half-integers of the cost lattice; pruning wherever ED is a valid bound, DTW = ED included, "
             "also combined with an explicit max_dist).",
        note="Trusted: TLC, exact-domain encoding. Thresholds within a rounding width of the true distance are not explored "
             "(the property excludes them), except the pruning bound which equals attainable costs by construction."),
    "C04": dict(
        level="model_checking", design="DESIGN.md 4/C04",
        technique="TLA+ cell-wise specification (OptMatrix, CellAllowed, MarksOK) judges recorded cost matrices of both engines and all layouts",
        text="For every case the matrices returned by Python warping_paths, C warping_paths_fast (full, keep_int_repr, "
             "psi_neg variants, via use_c) and a ctypes call writing the compact buffer of exactly the advertised size "
             "followed by dtw_expand_wps / dtw_expand_wps_slice are recorded and TLC judges every cell against the "
             "cell-wise optimum (with the freedom above max_dist, the -1 marks and unread border cells), the shape and "
             "the returned distance; thresholds also exactly on the cost lattice.",
        note="Trusted: TLC, exact-domain encoding, ctypes layout.."),
    "C05": dict(
        level="model_checking", design="DESIGN.md 4/C05",
        technique="TLA+ path predicate (Admissible, PathCost = Opt) judges every recorded warping path",
        text="Paths recorded from best_path on Python and C matrices (default and internal representation with penalty), "
             "best_path2, warping_path, warping_path_fast, best_path_compact, dtw_ndim.warping_path, warp and a ctypes "
             "call of dtw_warping_path_ndim (index arrays of exactly l1+l2) are judged by TLC clause by clause: range, "
             "steps, band, max_step, psi-relaxed start and end (L-shaped), cost along the path = optimum; any optimal "
             "admissible path is accepted, engines are not compared with each other. Paths traced from custom start "
             "cells (dtw_best_path_customstart, best_path(row, col)) must be optimal partial paths ending there.",
        note="Trusted: TLC, exact-domain encoding. Known finding: with psi-relaxation at the end the back-tracking may miss "
             "the chosen end point (clauses end / empty only; see known_findings.jsonl)."),
    "C09": dict(
        level="model_checking", design="DESIGN.md 4/C09",
        technique="TLA+ definitions LBKeogh/ED model-checked for the sandwich; recorded bounds of both engines trace-validated by TLC",
        text="Act M proves LB_Keogh <= Opt (no psi, any penalty) and Opt <= ED (penalty-free or equal lengths) and Opt = ED "
             "for window 1 on the model; every recorded LB_Keogh / Euclidean distance / only_ub value (Python, Cython, distance(use_c), direct "
             "C calls, ndim 1-3, signed data) must equal the specification's value and satisfy the sandwich with the "
             "recorded DTW distance.",
        note="Trusted: TLC, exact-domain encoding."),
    "C10": dict(
        level="model_checking", design="DESIGN.md 4/C10",
        technique="laws model-checked on the TLA+ definition; related pairs of real calls trace-validated by TLC",
        text="Act M proves identity, non-negativity, symmetry with the psi swap and monotonicity in window / psi / max_step / "
             "penalty for the definition on every case of the slice; for recorded pairs of real calls (both engines, symmetry "
             "also under pruning and max_length_diff, distance-matrix mirror entries) TLC checks each relation and the base value against Opt. For ALL sizes tlapm "
             "proves that the band, the psi corners and the step relation are symmetric under the swap and that a "
             "larger window / psi only adds cells (LayoutProofs.tla, tied to DTWCore by a TLC invariant).",
        note="Trusted: TLC, exact-domain encoding. Independent of any reference implementation."),
    "C11": dict(
        level="model_checking", design="DESIGN.md 4/C11",
        technique="TLA+ DTWCore with vector point distance judges multivariate distances, matrices, paths and matrix containers",
        text="Series of d-dimensional points (d 1..4, point alphabets with integer pairwise Euclidean distances) are run "
             "through the multivariate distance (8-12 routes, both engines, list / 3-D array containers, distance "
             "matrices, pruning with the n-D Euclidean bound, d=1 against the flattened univariate call), cost matrix "
             "and warping path routines; TLC judges all of them against the specification with PD = (squared) "
             "Euclidean distance between the vectors.",
        note="Trusted: TLC, exact-domain encoding. Known finding C11-psi-end-backtrack (same as C05)."),
    "C06": dict(
        level="model_checking", design="DESIGN.md 4/C06",
        technique="TLA+ DistMatrix (Pairs vs four transcribed index plans) model-checked over the complete block space; recorded results trace-validated by TLC (DMTrace)",
        text="Act M proves for EVERY block with n <= 6 (8 thorough) that the Python length, the C length, the serial loop "
             "order, the OpenMP row plan and distance_array_index agree with the declarative row-major Pairs. The same "
             "complete block space (n <= 5/6) is then executed on the real code: three length functions, the index "
             "list, the compact result through 6-12 routes (Python, C serial, Cython, direct dtw_distances_* calls incl. the "
             "two-collection routines with fewer rows / columns than series; list, "
             "2-D and 3-D array containers; ndim 1-2), square forms (mirrored / only_triu) and distance_array_index, "
             "and TLC judges layout and every value (values from DTWCore, settings incl. asymmetric psi, max_step, "
             "max_dist, max_length_diff).",
        note="Trusted: TLC, exact-domain encoding, ctypes layouts."),
    "C07": dict(
        level="model_checking", design="DESIGN.md 4/C07",
        technique="TLA+ ParallelDM: all interleavings of the row-parallel loop with SharedVars derived from the pragma in /repo's source; real parallel runs trace-validated against the serial layout",
        text="TLC explores every interleaving of T threads grabbing rows in any order (subsumes static/dynamic/guided, any "
             "chunk), one step per assignment, for every block (n <= 4, T <= 3): InBounds, NoDoubleWrite and "
             "SerialEquivalent. The set of shared loop scalars is parsed from each of the six functions' pragma and "
             "declarations, so dropping a variable from private(...) makes TLC exhibit the lost update (self-test: "
             "'c shared' must be refuted). Real executions: complete block space through the OpenMP extension and "
             "direct *_parallel calls with 3-7 thread counts up to 64, the real dtw_distances_prepare plan, and the "
             "multiprocessing branches with pools whose tasks complete in seeded random orders (plus a real Pool); "
             "all outputs judged element for element against the serial layout and the specification. The REAL loop "
             "bodies are also linked against a deterministic stand-in for libgomp (native/gomp_shim.c) and run under "
             "scripted schedules: (thread, row) hand-out orders, and thread choices at scheduling points inserted "
             "before and after every kernel call, so that a scalar shared by mistake is clobbered deterministically.",
        note="Trusted: TLC; the source scan that derives SharedVars (regex over pragma/declarations; an unknown shared "
             "scalar is reported only when it is read in the body and assigned from per-iteration state); re-entrancy of "
             "dtw_distance (no static state) is an assumption bound by the real runs. Real-thread runs sample schedules; "
             "the shim is deterministic at iteration and kernel-call granularity; exhaustiveness at assignment "
             "granularity is in the model only."),
    "C08": dict(
        level="exploration", design="DESIGN.md 4/C08",
        technique="TLA+ Compact layout model gives the buffer-size contract; exhaustive small configuration space replayed under gcc ASan+UBSan with exact-size malloc'ed caller buffers",
        text="TLC proves for all (l1,l2) <= 8x8 (12x12) and all windows that the compact layout keeps every in-band cell "
             "inside the advertised buffer and that each region's recurrence reads predecessor/border/filler slots. The "
             "code is then run under ASan+UBSan (library compiled from /repo's C sources) over all (l1,l2) <= 7x7 (9x9), "
             "all windows, psi 4-tuples (degenerate included), options on/off, ndim 1-3, every block for n <= 4 (5) incl. the "
             "two-collection routines for every (rows, columns), DBA "
             "masks across the byte boundaries (9, 10, 17 series) and the affinity routines, with caller buffers of "
             "exactly the documented sizes. For ALL sizes, tlapm proves on Layout.tla (tied to Compact.tla by a TLC "
             "invariant) that every stored cell has a slot inside its row of the advertised buffer. TLC cannot observe "
             "memory: the sanitizer is the monitor, hence level exploration.",
        note="Trusted: gcc 12 ASan/UBSan runtime; buffer sizes taken from the documented functions "
             "(dtw_settings_wps_length, dtw_distances_length)."),
    "C12": dict(
        level="model_checking", design="DESIGN.md 4/C12",
        technique="TLA+ DBA spec: existential choice of optimal paths; theorems model-checked over all choices; recorded averages trace-validated by TLC",
        text="Act M proves, for every collection/average/mask/settings of the slice and EVERY choice of one optimal path per "
             "selected series, that the averaging step stays in the value range, does not increase the sum of squared DTW "
             "costs and fixes identical series. Recorded results of dba (Python; Python averaging over C paths), "
             "dtw_cc.dba/dba_ndim (list and matrix containers), direct dtw_dba_ptrs/_matrix calls and dba_loop are "
             "rationalised exactly and accepted iff SOME choice of optimal paths explains them (a series-by-series search that "
             "MC_DBA checks equal to the declarative definition: invariant SearchAgrees); loop steps <= max_it; "
             "the sampled-path variant (nb_prob_samples > 0) is judged by the range clause.",
        note="Trusted: TLC; exact rationalisation of float averages (denominators <= 5000, 1e-11). Engines agree where "
             "optimal paths are unique because both must be explained by the same unique choice."),
    "C13": dict(
        level="model_checking", design="DESIGN.md 4/C13",
        technique="TLA+ SubseqAlign: relaxed-matrix last row proved equal to min over start points; matches and interleaved iterator histories trace-validated by TLC",
        text="Act M proves that the last row of the (0,0,n,n)-relaxed matrix equals min_b DTW_pen(query, series[b..e]) for all "
             "queries/series/penalties of the slice. Recorded: matching_function, SAMatch segment/path/value/distance for "
             "EVERY end point, best_match, and 1-3 k-best generators with random (k, overlap, minlength, maxlength) "
             "iterated interleaved over one alignment object and compared with the same generator alone on a fresh "
             "object; both engines; TLC judges values, paths (MatchPathOK) and iterator postconditions (IterOK).",
        note="Trusted: TLC, exact-domain encoding."),
    "C14": dict(
        level="model_checking", design="DESIGN.md 4/C14",
        technique="TLA+ state machine of the heap/threshold/cache search model-checked against TopK over abstract distances; call histories on real objects trace-validated by TLC",
        text="TLC explores the search loop (heap, running threshold handed down as max_dist, lower-bound skip) and the cache "
             "for ALL abstract distance / lower-bound vectors (ties, infinities), k values, max_dist and call histories of "
             "the slice: heap = TopK of the candidates seen, threshold never cuts a member of the answer, every answer = "
             "fresh TopK; a self-test refutes the design that does not cut a cached answer at k. Real histories of 1-4 "
             "calls (kbest_matches, best_match, align, *_fast, reset; k in {None,1,2,3,N,N+1}) on one object x use_lb x "
             "use_c x max_dist/max_value (also both at once, on and off the lattice) x window/penalty/psi are judged call by call against TopK of the "
             "specification's distances (indices up to ties).",
        note="Trusted: TLC, exact-domain encoding."),
    "C15": dict(
        level="model_checking", design="DESIGN.md 4/C15",
        technique="TLA+ transition system of the merge loop model-checked over all small matrices; merge_hook event traces replayed by TLC as Merge steps",
        text="TLC explores the merge loop (nondeterministic choice among minimal pairs and of the surviving side) for ALL "
             "upper-triangular matrices over {1,2,3,inf}, n <= 4/5, max_dist in {1,2,inf}: partition keyed by a member, "
             "monotone and bounded merges, progress unless stuck, single rooted binary tree for finite matrices. Real "
             "runs: the public merge_hook events and the returned dictionary of Hierarchical / HierarchicalTree fits "
             "(given matrices through dists_fun, real series through dtw.distance_matrix(_fast), order_hook, "
             "side-swapping merge_hook, re-used model objects) are replayed: every event must be an enabled Merge, the "
             "end state stuck, the dictionary equal to the state (max_dist between and exactly at attainable "
             "distances and 0, also handed to the tree; only_triu=False in the options; tree objects fitted repeatedly; a fit "
             "that does not return is reported); LinkageTree (also with only_triu) is compared with SciPy on "
             "the condensed vector in the documented pair order.",
        note="Trusted: TLC; SciPy's linkage as the oracle the property itself names."),
    "C16": dict(
        level="model_checking", design="DESIGN.md 4/C16",
        technique="TLA+ state machine of assign/repair/update/final over abstract rank tables model-checked; recorded fits judged by the same postcondition predicate",
        text="TLC explores the k-means loop over ALL rank tables (k <= 3, n <= 4, max_it <= 2) with outlier masks and "
             "empty-cluster repair as nondeterministic choices: every terminal state has keys 0..k-1, a partition, "
             "nearest-mean membership and performed_it <= max_it+1. Real fits (seeds x initialisation modes x "
             "drop_stddev x window/penalty/psi (scalar and per-series 4-tuples) x use_c x containers, a few with the real Pool, second fits on the same object) are judged by the same "
             "predicate on the returned clusters, len(means), performed_it, monitor_distances calls, and the dense "
             "ranks of DTW distances series x final means computed with the library's single-pair routine.",
        note="Trusted: TLC; dtw.distance / dtw_ndim.distance for the ranks (decided under C01/C02/C11); ranks tie values "
             "within 1e-9 relative."),
    "C17": dict(
        level="model_checking", design="DESIGN.md 4/C17",
        technique="TLA+ NW: recurrence proved equal to the maximum over all enumerated global alignments; recorded values, score matrices and alignments trace-validated",
        text="Act M: for all sequence pairs up to length 3/4 over a binary alphabet x substitution tables x gap scores the "
             "dynamic programme with its border equals the maximum over ALL global alignments. Real calls (default and "
             "dictionary scoring with fractional and zero gap costs, max/min orientation, lengths 0..6, six traceback orders, symbols that are equal but not identical objects): TLC "
             "judges value = optimum, the score matrix cell by cell and every alignment (equal lengths, reduces to the "
             "inputs, no gap/gap column, scores the value).",
        note="Trusted: TLC; scores scaled by 2 to keep half-integer gap costs exact."),
    "C18": dict(
        level="model_checking", design="DESIGN.md 4/C18",
        technique="TLA+ Affinity recurrence in the dyadic regime (gamma = ln 2) and a state machine of the match iterator; matrices and match histories trace-validated",
        text="Exact regime: affinities 2^-d^2 at scale 2^17. Act M: cells non-negative in band / excluded outside, and the "
             "iterator state machine (take a maximal unconsumed positive cell, walk back along positive unconsumed "
             "predecessors, restart/keep) always yields histories satisfying HistoryOK. Real runs: the matrix of "
             "warping_paths_affinity (Python, use_c, fast, compact + full-range expansion; psi relaxation at the begin of "
             "either series) judged cell by cell, and "
             "local_concurrences histories of kbest_matches calls (k, minlen, buffer, restart) for Python / C / "
             "C-compact judged by HistoryOK, which includes that a search on an unmasked matrix ends in a cell holding "
             "the maximum.",
        note="Trusted: TLC; np.exp(-ln2*d^2) within 1e-6 relative of the dyadic value at the chosen scale; tau placed "
             "between and exactly at attainable affinities."),
    "C19": dict(
        level="model_checking", design="DESIGN.md 4/C19",
        technique="TLA+ Similarity: parameter-resolution table and values/exp-arguments as exact rationals model-checked; recorded values (or recovered arguments) trace-validated",
        text="Act M proves monotonicity, zero -> maximal, range [0,1] under the default scale and positivity of every "
             "derived scale for all distance arrays over {0,1,2,4} up to length 3 x methods x given/derived parameters. "
             "Real calls of distance_to_similarity and squash (all methods x defaults / explicit r, a, x0, base / "
             "cover_quantile / keep_sign (also with a base and on signed data) x shapes) are judged on exact rational values, on the rational ARGUMENT "
             "recovered from the value (ln S, log_b(1-S), log_b(S/(1-S))), on dense ranks and range flags, reported "
             "parameters and re-application.",
        note="Trusted: TLC; the lemma that exp is increasing with exp(0)=1; recovery of rational arguments from floats "
             "(denominators <= 720, 1e-11). Quantile-derived scales are irrational: judged at order level only. Known "
             "finding: reciprocal + cover_quantile does not report a."),
    "C20": dict(
        level="model_checking", design="DESIGN.md 4/C20",
        technique="TLA+ Purity (store unchanged, results functional in content) with an impure-routine self-test; recorded call histories on persistent shared objects trace-validated",
        text="Seeded histories of calls drawn from 20 routines over shared series, collections and a settings dictionary, "
             "with the container kind (list, tuple, array('d'), ndarray, strided / negative-stride / F-ordered / "
             "transposed views, list or tuple of arrays incl. strided members, 2-D array, SeriesContainer) and the engine re-drawn per call, "
             "repeated calls (collection containers re-drawn, DBA centres of another length, parallel matrix routes with one-sided psi), "
             "and a second pass with NumPy hidden; contents of EVERY object are recorded before and "
             "after every call. TLC judges: no object changed; equal (routine, content, settings) => equal result "
             "across kinds, engines, NumPy presence and history; distance results equal DTWCore.",
        note="Trusted: TLC; canonical result encoding with 10 significant digits; routines that may pick among ties "
             "(paths, merges, averages) are compared per engine only."),
}

NOT_YET = {
}


def main():
    props = [json.loads(l) for l in open(os.path.join(VERIF, "properties.jsonl"))]
    checks = []
    na = []
    for p in props:
        pid = p["id"]
        if pid in CHECKS:
            c = CHECKS[pid]
            checks.append({
                "property_id": pid,
                "quick_cmd": "./check %s --tier quick" % pid,
                "thorough_cmd": "./check %s --tier thorough" % pid,
                "evidence_file": "evidence/%s.json" % pid,
                "replay_cmd_template": "./check %s --replay {path}" % pid,
                "engine": "tlc",
                "level_claimed": {"category": c["level"], "text": c["text"], "design_ref": c["design"]},
                "level_note": c["note"],
                "technique": c["technique"],
            })
        else:
            na.append({"property_id": pid,
                       "reason": NOT_YET.get(pid, "check under construction in this round: specification module not yet "
                                                  "bound to the implementation; not claimed until it is")})
    man = {
        "version": 1,
        "setup_cmd": "./setup.sh",
        "hooks": {
            "guard": "DTAIDISTANCE_VERIF",
            "enable": "no source hooks so far: all observation is through the public API and exported C functions; "
                      "checks build /repo's working tree into /verif/.cache (content-addressed) on every run",
            "baseline_off_cmd": BASE_OFF,
            "source_commits": [],
            "add_only": True,
        },
        "engines": [{"name": "tlc", "path": "spec/", "serves_properties": sorted(CHECKS),
                     "kind_free_text": "explicit TLA+ specifications model-checked with TLC; conformance by TLC trace "
                                       "validation of recorded implementation outputs and replay of TLC behaviours"}],
        "checks": checks,
        "not_applicable": na,
        "notes": "See DESIGN.md. Exit 0 = held, 1 = VIOLATION line, 2 = machinery failure.",
    }
    with open(os.path.join(VERIF, "MANIFEST.json"), "w") as fh:
        json.dump(man, fh, indent=1)


if __name__ == "__main__":
    main()
