"""Worker-side execution for extension X04: util.DetectKnee and SubsequenceAlignment.best_matches."""
from . import dtwx, sax


def run_x04(it):
    if it["kind"] == "knee":
        from dtaidistance import util
        dk = util.DetectKnee(alpha=it["a4"] / 4.0)
        stops = []
        for v in it["vals"]:
            stops.append(bool(dk.dostop(float(v))))
        return {"id": it["id"], "kind": "knee", "a4": it["a4"], "vals": it["vals"], "stops": stops, "route": "DetectKnee"}
    from dtaidistance.subsequence.subsequencealignment import SubsequenceAlignment
    c = sax.case_of(it)
    S = it["S"]
    q = sax.arr(it["q"], S)
    s = sax.arr(it["s"], S)
    lq = len(it["q"])
    pen = it["set"]["pen"] / S
    fnum, fden = it["f"]
    ov, mn, mx = it["opts"]
    kw = {"overlap": ov, "minlength": (None if mn < 0 else mn), "maxlength": (None if mx < 0 else mx)}
    use_c = bool(it["use_c"])

    def enc(m):
        return [int(m.segment[0]), int(m.segment[1]), dtwx.enc_cost(c, float(m.value) * lq)]
    route = "%s:best_matches(f=%d/%d,overlap=%d,minlength=%d,maxlength=%d)" % ("c" if use_c else "py", fnum, fden, ov, mn, mx)
    try:
        sa = SubsequenceAlignment(q, s, penalty=pen, use_c=use_c)
        got_m = list(sa.best_matches(max_rangefactor=fnum / fden, **kw))
        sa2 = SubsequenceAlignment(q, s, penalty=pen, use_c=use_c)
        all_m = list(sa2.kbest_matches(k=None, **kw))
    except Exception as exc:
        return {"id": it["id"], "kind": "range", "route": route + ":raised:" + type(exc).__name__, "got": [[-3, -3, -3]],
                "all": [], "fnum": fnum * fnum, "fden": fden * fden, "tie": False}
    # a value exactly on the boundary f * first is decided by floating-point rounding: such records are skipped
    tie = False
    if all_m and fnum != fden:          # f = 1: v > v * 1.0 is decided exactly
        lim = float(all_m[0].value) * fnum / fden
        tie = any(abs(float(m.value) - lim) <= 1e-9 * max(1.0, abs(lim)) for m in all_m)
    return {"id": it["id"], "kind": "range", "route": route, "got": [enc(m) for m in got_m], "all": [enc(m) for m in all_m],
            "fnum": fnum * fnum, "fden": fden * fden, "tie": tie}
