"""Debug helper for wps/path records: summarise by clause (route:kind) and feature signature."""
import collections, json, sys
sys.path.insert(0, "/verif")
from harness.failstat import sig  # noqa
