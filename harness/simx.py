"""Worker-side execution of similarity / squash calls (C19)."""
import math
from fractions import Fraction

from . import dtwx
from .kmx import dense_ranks

_np = None


def np():
    global _np
    if _np is None:
        import numpy
        _np = numpy
    return _np


def rat(x, maxden=720):
    """float -> [num, den] if it is (within rounding) a small rational, else [0, 0]."""
    try:
        x = float(x)
    except Exception:
        return [0, 0]
    if x != x or math.isinf(x):
        return [0, 0]
    f = Fraction(x).limit_denominator(maxden)
    if abs(float(f) - x) <= 1e-11 * max(1.0, abs(x)) and abs(f.numerator) < 10 ** 7:
        return [f.numerator, f.denominator]
    return [0, 0]


def frac(p):
    return None if p is None else p[0] / p[1]


def run_c19(it):
    from dtaidistance import similarity as sim
    calls = []
    shape = it["shape"]
    D = np().array(it["D"], dtype=float).reshape(shape)
    flat = [int(v) for v in it["D"]]
    D0, flat0 = D, flat
    for c in it["calls"]:
        kind, method = c["kind"], c["method"]
        # squash(keep_sign=True) on signed data: the array shifted down by c["shift"]
        shift = int(c.get("shift") or 0)
        D = D0 - shift
        flat = [v - shift for v in flat0]
        kw = {"method": method}
        for name in ("r", "a", "x0"):
            if c.get(name) is not None:
                kw[name] = frac(c[name])
        if c.get("base") is not None:
            kw["base"] = c["base"]
        if c.get("cq") is not None:
            kw["cover_quantile"] = tuple(c["cq"]) if isinstance(c["cq"], list) else c["cq"]
        if c.get("keep_sign"):
            kw["keep_sign"] = True
        route = "%s[%s%s%s%s%s%s]" % (kind, method, ",r" if "r" in kw else "", ",a" if "a" in kw else "",
                                      ",x0" if "x0" in kw else "", ",base" if "base" in kw else "",
                                      (",cq" if "cover_quantile" in kw else "") + (",keep_sign" if c.get("keep_sign") else "")
                                      + (",shift%d" % shift if shift else ""))
        rec = {"route": route, "kind": kind, "method": method, "D": flat,
               "r": c.get("r") or [0, 0], "a": c.get("a") or [0, 0], "x0": c.get("x0") or [0, 0],
               "raised": False, "finite": True, "in01": True, "zeromax": True, "ranks": [0] * len(flat),
               "mode": "order", "vals": [[0, 0]] * len(flat), "rrep": [0, 0], "reapply": True,
               "defaults": not any(k2 in kw for k2 in ("r", "a", "x0", "cover_quantile"))}
        fn = sim.distance_to_similarity if kind == "d2s" else sim.squash
        try:
            out = fn(D, return_params=True, **kw)
        except Exception as exc:
            rec["raised"] = True
            rec["route"] = route + ":" + type(exc).__name__
            calls.append(rec)
            continue
        S = np().asarray(out[0], dtype=float).reshape(-1)
        params = out[1:]
        rec["finite"] = bool(np().all(np().isfinite(S)))
        if rec["finite"]:
            eps = 1e-12
            rec["in01"] = bool(np().all(S >= -eps) and np().all(S <= 1 + eps))
            if shift:
                # signed data with keep_sign: range [-1, 1] and the sign of the argument is kept
                Xf = np().asarray(D, dtype=float).reshape(-1)
                rec["in01"] = bool(np().all(np().abs(S) <= 1 + eps) and np().all(S * np().sign(Xf) >= -eps))
            rec["ranks"] = dense_ranks([float(v) for v in S])
            if kind == "d2s" and any(v == 0 for v in flat):
                mx = float(np().max(S))
                rec["zeromax"] = all(abs(float(S[i]) - mx) <= 1e-12 for i in range(len(flat)) if flat[i] == 0)
            # exact mode: parameters are rational (no quantile-derived scale)
            if "cover_quantile" not in kw and not c.get("keep_sign"):
                rec["mode"] = "exact"
                b = kw.get("base", math.e)
                vals = []
                for v in S:
                    v = float(v)
                    try:
                        if kind == "d2s" and method in ("reciprocal", "reverse"):
                            vals.append(rat(v))
                        elif kind == "d2s":
                            vals.append(rat(math.log(v)) if v > 1e-300 else [0, 0])
                        elif method == "logistic":
                            vals.append(rat(math.log(v / (1 - v), b)) if 1e-12 < v < 1 - 1e-12 else [0, 0])
                        else:
                            vals.append(rat(math.log(1 - v, b)) if v < 1 - 1e-12 else [0, 0])
                    except Exception:
                        vals.append([0, 0])
                rec["vals"] = vals
                if kind == "d2s":
                    rec["rrep"] = rat(params[0])
            # re-application with the reported parameters reproduces the output
            try:
                kw2 = dict(kw)
                kw2.pop("cover_quantile", None)
                kw2["r"] = params[0]
                if kind == "squash":
                    kw2["x0"] = params[1]
                S2 = np().asarray(fn(D, **kw2), dtype=float).reshape(-1)
                rec["reapply"] = bool(np().allclose(S, S2, rtol=1e-12, atol=1e-12))
            except Exception:
                rec["reapply"] = False
        calls.append(rec)
    return {"id": it["id"], "calls": calls, "routes": [c["route"] for c in calls]}
