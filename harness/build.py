"""Content-addressed builds of /repo's current working tree.

py_build()    -> path to a 'src' directory containing dtaidistance with freshly built extensions
native_lib()  -> path to a shared library compiled from the repository's C sources (for ctypes)

Nothing is ever imported from /repo's in-place (untracked, possibly stale) .so files.
The compiled part is reused only if the hash of every compiled input is unchanged, which is
equivalent to a rebuild; Python sources are re-synced on every call.
"""
import fcntl
import hashlib
import os
import shutil
import subprocess
import sys
import time

REPO = os.environ.get("VERIF_REPO", "/repo")
VERIF = os.path.dirname(os.path.dirname(os.path.abspath(__file__)))
CACHE = os.path.join(VERIF, ".cache")
PY = "/venv/bin/python"
CDIR = "src/DTAIDistanceC/DTAIDistanceC"
GUARD = "DTAIDISTANCE_VERIF"


def _compiled_inputs():
    out = []
    for root, dirs, files in os.walk(os.path.join(REPO, "src")):
        dirs[:] = [d for d in dirs if d not in ("__pycache__", "jinja")]
        for f in files:
            p = os.path.join(root, f)
            if f.endswith((".pyx", ".pxd", ".h")):
                out.append(p)
            elif f.endswith(".c"):
                # cythonised outputs are build products, not inputs
                base = f[:-2]
                if os.path.exists(os.path.join(root, base + ".pyx")):
                    continue
                out.append(p)
    out.append(os.path.join(REPO, "setup.py"))
    return sorted(out)


def _hash(paths, extra=""):
    h = hashlib.sha256()
    h.update(extra.encode())
    for p in paths:
        h.update(os.path.relpath(p, REPO).encode())
        with open(p, "rb") as fh:
            h.update(fh.read())
    return h.hexdigest()[:16]


class _Lock:
    def __init__(self, name):
        os.makedirs(CACHE, exist_ok=True)
        self.path = os.path.join(CACHE, name + ".lock")

    def __enter__(self):
        self.fh = open(self.path, "w")
        fcntl.flock(self.fh, fcntl.LOCK_EX)
        return self

    def __exit__(self, *a):
        fcntl.flock(self.fh, fcntl.LOCK_UN)
        self.fh.close()


def _prune(prefix, keep, n=3):
    """Keep the n most recently used builds; never remove one used within the last hour (a concurrent check
    on another tree - a scratch worktree with a seeded change - may still be running from it)."""
    ds = [d for d in os.listdir(CACHE) if d.startswith(prefix) and os.path.isdir(os.path.join(CACHE, d))]
    ds = [d for d in ds if d != keep]
    ds.sort(key=lambda d: os.path.getmtime(os.path.join(CACHE, d)))
    now = time.time()
    while len(ds) >= n:
        d = ds.pop(0)
        if now - os.path.getmtime(os.path.join(CACHE, d)) < 3600:
            break
        shutil.rmtree(os.path.join(CACHE, d), ignore_errors=True)


def py_build(verbose=False):
    """Build (or reuse) the Cython extensions from /repo's working tree. Returns PYTHONPATH entry."""
    # a scratch tree (VERIF_REPO) never shares a build directory with /repo: its Python files differ
    hsh = _hash(_compiled_inputs(), extra=sys.version + ("" if REPO == "/repo" else os.path.realpath(REPO)))
    name = "py-" + hsh
    dest = os.path.join(CACHE, name)
    with _Lock("py"):
        ok = os.path.exists(os.path.join(dest, ".built"))
        os.makedirs(dest, exist_ok=True)
        excl = ["--exclude=.git", "--exclude=*.so", "--exclude=__pycache__", "--exclude=/tests",
                "--exclude=/docs", "--exclude=/build", "--exclude=*.png", "--exclude=*.npy",
                "--exclude=/src/dtaidistance/*_cc.c", "--exclude=/src/dtaidistance/*_cc_omp.c",
                "--exclude=/src/dtaidistance/dtw_cc_numpy.c", "--exclude=.built", "--exclude=build.log"]
        subprocess.run(["rsync", "-a", "--delete"] + excl + [REPO + "/", dest + "/"], check=True)
        if not ok:
            t0 = time.time()
            env = dict(os.environ)
            env.pop(GUARD, None)
            with open(os.path.join(dest, "build.log"), "w") as log:
                r = subprocess.run([PY, "setup.py", "build_ext", "--inplace", "--parallel", "4"],
                                   cwd=dest, stdout=log, stderr=subprocess.STDOUT, env=env)
            if r.returncode != 0:
                sys.stderr.write(open(os.path.join(dest, "build.log")).read()[-4000:])
                raise RuntimeError("build of /repo extensions failed (see %s/build.log)" % dest)
            shutil.rmtree(os.path.join(dest, "build"), ignore_errors=True)
            open(os.path.join(dest, ".built"), "w").write(str(time.time() - t0))
            if verbose:
                print("built extensions in %.1fs -> %s" % (time.time() - t0, dest))
        os.utime(dest)
        _prune("py-", name, n=4)
    return os.path.join(dest, "src")


NATIVE_FLAVOURS = {
    # asserts enabled (no NDEBUG), OpenMP on
    "plain": ["gcc", "-O1", "-g", "-fopenmp", "-fPIC", "-shared"],
    # sanitizers for the serial kernels and (gcc: ASan works under libgomp) the parallel ones
    "asan": ["gcc", "-O1", "-g", "-fopenmp", "-fPIC", "-shared", "-fsanitize=address,undefined",
             "-fno-sanitize-recover=undefined", "-fno-omit-frame-pointer"],
    # OpenMP code linked against our deterministic scheduler shim instead of libgomp
    "shim": ["gcc", "-O1", "-g", "-fopenmp", "-fPIC", "-shared", "-nodefaultlibs"],
}


def native_lib(flavour="plain", hooks=False):
    """Compile the repository's C sources into a shared library for ctypes. Returns its path."""
    srcs = [os.path.join(REPO, CDIR, f) for f in ("dd_dtw.c", "dd_ed.c", "dd_dtw_openmp.c", "dd_globals.c")]
    hdrs = [os.path.join(REPO, CDIR, f) for f in os.listdir(os.path.join(REPO, CDIR)) if f.endswith(".h")]
    extra = []
    mine = []
    if flavour == "shim":
        mine = [os.path.join(VERIF, "native", "gomp_shim.c")]
        extra = [os.path.join(VERIF, "native", "shim_wrap.h")]
    if hooks:
        mine.append(os.path.join(VERIF, "native", "verif_trace.c"))
    hsh = _hash(sorted(srcs + hdrs), extra=flavour + str(hooks) + "".join(open(m).read() for m in mine + extra))
    name = "nat-%s-%s" % (flavour, hsh)
    dest = os.path.join(CACHE, name)
    lib = os.path.join(dest, "libdd.so")
    with _Lock("nat-" + flavour):
        if not os.path.exists(lib):
            os.makedirs(dest, exist_ok=True)
            if flavour == "shim":
                # compile with -fopenmp (the pragmas become GOMP_* calls) but link WITHOUT libgomp:
                # the runtime entry points are provided by native/gomp_shim.c.  dd_dtw_openmp.c additionally
                # gets native/shim_wrap.h force-included: scheduling points around the kernel calls.  If the
                # wrapped compilation fails (the file was restructured), fall back to the plain one.
                objs = []
                for src in srcs:
                    o = os.path.join(dest, os.path.basename(src) + ".o")
                    base = ["gcc", "-O1", "-g", "-fopenmp", "-fPIC", "-c", "-I" + os.path.join(REPO, CDIR)]
                    attempts = [base + [src, "-o", o]]
                    if os.path.basename(src) == "dd_dtw_openmp.c":
                        attempts.insert(0, base + ["-include", os.path.join(VERIF, "native", "shim_wrap.h"), src, "-o", o])
                    for cmd in attempts:
                        r = subprocess.run(cmd, capture_output=True, text=True)
                        if r.returncode == 0:
                            break
                    if r.returncode != 0:
                        sys.stderr.write(r.stderr[-4000:])
                        raise RuntimeError("native build failed: " + " ".join(cmd))
                    objs.append(o)
                cmd = ["gcc", "-O1", "-g", "-fPIC", "-shared", "-Wl,--no-undefined", "-o", lib + ".tmp"] + objs + \
                    mine + ["-lpthread", "-lm"]
            else:
                cmd = list(NATIVE_FLAVOURS[flavour])
                if hooks:
                    cmd.append("-D" + GUARD)
                cmd += ["-I" + os.path.join(REPO, CDIR), "-o", lib + ".tmp"] + srcs + mine + ["-lm"]
            r = subprocess.run(cmd, capture_output=True, text=True)
            if r.returncode != 0:
                sys.stderr.write(r.stderr[-4000:])
                raise RuntimeError("native build failed: " + " ".join(cmd))
            os.rename(lib + ".tmp", lib)
        os.utime(dest)
        _prune("nat-%s-" % flavour, name, n=3)
    return lib


if __name__ == "__main__":
    t0 = time.time()
    print(py_build(verbose=True))
    print(native_lib("plain"))
    print("%.1fs" % (time.time() - t0))
