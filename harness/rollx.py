"""Worker-side execution for extension X03: records every subscript dtw.distance applies to its rolling buffer
by replacing the `array` module seen by dtaidistance.dtw with a recording stand-in (no change to /repo)."""
import array as _real_array


class RecBuf:
    def __init__(self, typecode, init=()):
        self.typecode = typecode
        self.buf = list(init)
        self.reads = []
        self.writes = []

    def _idx(self, i):
        # negative subscripts are recorded as they are: Python would silently wrap them around
        return int(i)

    def __getitem__(self, i):
        if isinstance(i, slice):
            start, stop, step = i.start, i.stop, i.step
            self.reads.extend(range(*i.indices(len(self.buf))))
            if (start is not None and start < 0) or (stop is not None and stop < 0):
                self.reads.append(-1)
            return self.buf[i]
        self.reads.append(self._idx(i))
        return self.buf[i]

    def __setitem__(self, i, v):
        self.writes.append(self._idx(i))
        self.buf[i] = v

    def __len__(self):
        return len(self.buf)

    def __iter__(self):
        return iter(self.buf)


class RecArrayModule:
    def __init__(self):
        self.created = []
        self.ArrayType = _real_array.ArrayType
        self.typecodes = _real_array.typecodes

    def array(self, typecode, init=()):
        b = RecBuf(typecode, init)
        self.created.append(b)
        return b


def run_x03(it):
    from dtaidistance import dtw
    a = [float(v) for v in it["s1"]]
    b = [float(v) for v in it["s2"]]
    kw = {}
    if it["w"]:
        kw["window"] = it["w"]
    if it.get("pen"):
        kw["penalty"] = float(it["pen"])
    rec = RecArrayModule()
    saved = dtw.array
    dtw.array = rec
    try:
        try:
            d = dtw.distance(a, b, **kw)
            raised = ""
        except Exception as exc:
            d = None
            raised = type(exc).__name__
    finally:
        dtw.array = saved
    d_ref = dtw.distance(a, b, **kw)
    bufs = [x for x in rec.created if x.typecode == "d"]
    out = {"id": it["id"], "l1": len(a), "l2": len(b), "w": it["w"], "raised": raised,
           "same": (d is not None and repr(float(d)) == repr(float(d_ref)))}
    if len(bufs) != 1:
        out.update({"buflen": -1, "reads": [], "writes": [], "nbufs": len(bufs)})
    else:
        out.update({"buflen": len(bufs[0]), "reads": bufs[0].reads, "writes": bufs[0].writes, "nbufs": 1})
    return out
