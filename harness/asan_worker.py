"""Child process for C08: executes native calls against the ASan+UBSan build.  Must be started with
LD_PRELOAD=<libasan.so>.  argv: <lib path> <batch json> <progress file>"""
import ctypes
import json
import os
import sys

VERIF = os.path.dirname(os.path.dirname(os.path.abspath(__file__)))
sys.path.insert(0, VERIF)
from harness import native  # noqa: E402

C = ctypes


def series_vals(cfg, which, nd):
    vals = cfg[which]
    return [float(x) for p in vals for x in p]


def run_case(lib, cfg):
    L = lib.L
    l1, l2, nd = len(cfg["s1"]), len(cfg["s2"]), len(cfg["s1"][0])
    a = series_vals(cfg, "s1", nd)
    b = series_vals(cfg, "s2", nd)
    A = native.Buf(len(a), fill=a)
    B = native.Buf(len(b), fill=b)
    st = L.dtw_settings_default()
    st.window = cfg["w"]
    st.penalty = cfg["pen"]
    st.max_step = cfg["ms"]
    st.max_dist = cfg["md"]
    st.max_length_diff = cfg.get("mld", 0)
    st.psi_1b, st.psi_1e, st.psi_2b, st.psi_2e = cfg["psi"]
    st.use_pruning = bool(cfg["prune"])
    st.inner_dist = cfg["inner"]
    stp = C.byref(st)
    calls = 0
    kind = cfg["kind"]
    try:
        if kind == "pair":
            L.dtw_distance_ndim(A.ptr, l1, B.ptr, l2, nd, stp)
            if nd == 1:
                L.dtw_distance(A.ptr, l1, B.ptr, l2, stp)
                L.lb_keogh(A.ptr, l1, B.ptr, l2, stp)
                L.ub_euclidean(A.ptr, l1, B.ptr, l2)
                L.ub_euclidean_euclidean(A.ptr, l1, B.ptr, l2)
                L.euclidean_distance(A.ptr, l1, B.ptr, l2)
                calls += 5
            L.ub_euclidean_ndim(A.ptr, l1, B.ptr, l2, nd)
            L.ub_euclidean_ndim_euclidean(A.ptr, l1, B.ptr, l2, nd)
            L.euclidean_distance_ndim(A.ptr, l1, B.ptr, l2, nd)
            L.euclidean_distance_ndim_euclidean(A.ptr, l1, B.ptr, l2, nd)
            calls += 5
            n = L.dtw_settings_wps_length(l1, l2, stp)
            for int_repr in (False, True):
                W = native.Buf(n)
                L.dtw_warping_paths_ndim(W.ptr, A.ptr, l1, B.ptr, l2, True, int_repr, True, nd, stp)
                F = native.Buf((l1 + 1) * (l2 + 1))
                L.dtw_expand_wps(W.ptr, F.ptr, l1, l2, stp)
                I1 = native.Buf(l1 + l2, native.idx_t)
                I2 = native.Buf(l1 + l2, native.idx_t)
                L.dtw_best_path(W.ptr, I1.ptr, I2.ptr, l1, l2, stp)
                L.dtw_best_path_isclose(W.ptr, I1.ptr, I2.ptr, l1, l2, 1e-5, 1e-8, stp)
                calls += 4
                for x in (W, F, I1, I2):
                    x.free()
            I1 = native.Buf(l1 + l2, native.idx_t)
            I2 = native.Buf(l1 + l2, native.idx_t)
            k = native.idx_t(0)
            L.dtw_warping_path_ndim(A.ptr, l1, B.ptr, l2, I1.ptr, I2.ptr, C.byref(k), nd, stp)
            calls += 1
            I1.free()
            I2.free()
        elif kind == "slice":
            n = L.dtw_settings_wps_length(l1, l2, stp)
            W = native.Buf(n)
            L.dtw_warping_paths_ndim(W.ptr, A.ptr, l1, B.ptr, l2, True, False, True, nd, stp)
            rb, re, cb, ce = cfg["slice"]
            F = native.Buf((re - rb) * (ce - cb))
            L.dtw_expand_wps_slice(W.ptr, F.ptr, l1, l2, rb, re, cb, ce, stp)
            calls += 2
            W.free()
            F.free()
        elif kind == "affinity":
            n = L.dtw_settings_wps_length(l1, l2, stp)
            W = native.Buf(n)
            L.dtw_warping_paths_affinity_ndim(W.ptr, A.ptr, l1, B.ptr, l2, True, True, True, bool(cfg["triu"]), nd,
                                              0.6931471805599453, 0.3, -1.0, 0.5, stp)
            F = native.Buf((l1 + 1) * (l2 + 1))
            L.dtw_expand_wps_affinity(W.ptr, F.ptr, l1, l2, stp)
            p = L.dtw_wps_parts(l1, l2, stp)
            r = native.idx_t(0)
            c = native.idx_t(0)
            L.dtw_wps_max(C.byref(p), W.ptr, C.byref(r), C.byref(c), l1, l2)
            I1 = native.Buf(l1 + l2, native.idx_t)
            I2 = native.Buf(l1 + l2, native.idx_t)
            if 0 < r.value <= l1 and 0 < c.value <= l2:
                L.dtw_best_path_affinity(W.ptr, I1.ptr, I2.ptr, l1, l2, r.value, c.value, stp)
                L.dtw_wps_negativize(C.byref(p), W.ptr, l1, l2, max(1, r.value - 1), min(l1, r.value + 1),
                                     max(1, c.value - 1), min(l2, c.value + 1), False)
            calls += 5
            for x in (W, F, I1, I2):
                x.free()
        elif kind in ("matrix", "dba"):
            sers = cfg["series"]
            n = len(sers)
            flat = [[float(x) for p in s for x in p] for s in sers]
            lens = [len(s) for s in sers]
            sb = [native.Buf(len(f), fill=f) for f in flat]
            PT = (native.P_seq * n)(*[x.ptr for x in sb])
            LN = (native.idx_t * n)(*lens)
            equal = len(set(lens)) == 1
            if equal:
                allf = [x for f in flat for x in f]
                M = native.Buf(len(allf), fill=allf)
            if kind == "matrix":
                rb, re, cb, ce = cfg["blk"]
                for par in ("", "_parallel"):
                    blk = native.DTWBlock(rb, re, cb, ce, bool(cfg["triu"]))
                    length = L.dtw_distances_length(C.byref(blk), n, n)
                    O = native.Buf(max(length, 0))
                    if nd == 1:
                        getattr(L, "dtw_distances_ptrs" + par)(PT, n, LN, O.ptr, C.byref(blk), stp)
                        if equal:
                            blk = native.DTWBlock(rb, re, cb, ce, bool(cfg["triu"]))
                            getattr(L, "dtw_distances_matrix" + par)(M.ptr, n, lens[0], O.ptr, C.byref(blk), stp)
                    else:
                        getattr(L, "dtw_distances_ndim_ptrs" + par)(PT, n, LN, nd, O.ptr, C.byref(blk), stp)
                        if equal:
                            blk = native.DTWBlock(rb, re, cb, ce, bool(cfg["triu"]))
                            getattr(L, "dtw_distances_ndim_matrix" + par)(M.ptr, n, lens[0], nd, O.ptr, C.byref(blk), stp)
                    calls += 2
                    O.free()
                    if equal:
                        # two collections (rows x columns) with different numbers of series: the first nr series
                        # as rows, the first nc as columns; with the case's block where it fits, and without a block
                        fn2 = getattr(L, ("dtw_distances_matrices" if nd == 1 else "dtw_distances_ndim_matrices") + par)
                        for nr in range(1, n + 1):
                            for nc in range(1, n + 1):
                                blocks = [(0, 0, 0, 0)]
                                if 0 < re <= nr and 0 < ce <= nc:
                                    blocks.append((rb, re, cb, ce))
                                for bl in blocks:
                                    blk = native.DTWBlock(bl[0], bl[1], bl[2], bl[3], bool(cfg["triu"]))
                                    length = L.dtw_distances_length(C.byref(blk), nr, nc)
                                    O = native.Buf(max(length, 0))
                                    if nd == 1:
                                        fn2(M.ptr, nr, lens[0], M.ptr, nc, lens[0], O.ptr, C.byref(blk), stp)
                                    else:
                                        fn2(M.ptr, nr, lens[0], M.ptr, nc, lens[0], nd, O.ptr, C.byref(blk), stp)
                                    calls += 1
                                    O.free()
            else:
                t = cfg["t"]
                cvals = [float(x) for p in cfg["avg"] for x in p]
                Cb = native.Buf(len(cvals), fill=cvals)
                nbytes = (n + 7) // 8
                mask = (C.c_ubyte * nbytes)(*cfg["mask"])
                maskbuf = native.Buf(nbytes, C.c_ubyte, fill=list(cfg["mask"]))
                L.dtw_dba_ptrs(PT, n, LN, Cb.ptr, t, C.cast(maskbuf.ptr, C.POINTER(C.c_ubyte)), 0, nd, stp)
                if equal:
                    L.dtw_dba_matrix(M.ptr, n, lens[0], Cb.ptr, t, C.cast(maskbuf.ptr, C.POINTER(C.c_ubyte)), 0, nd, stp)
                calls += 2
                Cb.free()
                maskbuf.free()
            for x in sb:
                x.free()
            if equal:
                M.free()
    finally:
        A.free()
        B.free()
    return calls


def main():
    libpath, batch, progress = sys.argv[1:4]
    lib = native.lib_at(libpath)
    items = json.load(open(batch))
    with open(progress, "w") as pf:
        for it in items:
            pf.write("S %s\n" % it["id"])
            pf.flush()
            n = run_case(lib, it)
            pf.write("D %s %d\n" % (it["id"], n))
            pf.flush()


if __name__ == "__main__":
    main()
