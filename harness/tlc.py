"""Running TLC: model checking (Act M) and batched trace validation (Act T)."""
import json
import os
import re
import shutil
import subprocess
import sys
import tempfile
import time
from concurrent.futures import ThreadPoolExecutor

VERIF = os.path.dirname(os.path.dirname(os.path.abspath(__file__)))
SPEC = os.path.join(VERIF, "spec")
CACHE = os.path.join(VERIF, ".cache")
JAR = "/opt/veriftools/tla/tla2tools.jar"
CM = "/opt/veriftools/tla/CommunityModules-deps.jar"


class TLCError(Exception):
    pass


def _classpath():
    cps = [JAR]
    d = os.path.dirname(JAR)
    for f in sorted(os.listdir(d)):
        if f.endswith(".jar") and f != os.path.basename(JAR):
            cps.append(os.path.join(d, f))
    return ":".join(cps)


_CP = None


def run_dir():
    """Scratch directory for this process' TLC runs (never /tmp); removed by cleanup()."""
    d = os.path.join(CACHE, "run-%d" % os.getpid())
    os.makedirs(d, exist_ok=True)
    return d


def cleanup():
    shutil.rmtree(os.path.join(CACHE, "run-%d" % os.getpid()), ignore_errors=True)


def tlc(module, cfg, workers=4, env=None, timeout=3600, extra=(), heap="3g", tag=None, coverage=False):
    """Run TLC on spec/<module>.tla with config file path cfg. Returns dict(stdout, states, distinct, ok...)."""
    global _CP
    if _CP is None:
        _CP = _classpath()
    meta = tempfile.mkdtemp(prefix="meta-%s-" % (tag or module), dir=run_dir())
    cmd = ["java", "-Xmx" + heap, "-Xss32m", "-XX:+UseParallelGC", "-cp", _CP, "tlc2.TLC",
           "-workers", str(workers), "-metadir", meta, "-noGenerateSpecTE", "-config", cfg]
    if coverage:
        cmd += ["-coverage", "1"]
    cmd += list(extra) + [os.path.join(SPEC, module + ".tla")]
    e = dict(os.environ)
    if env:
        e.update(env)
    t0 = time.time()
    try:
        r = subprocess.run(cmd, cwd=SPEC, env=e, capture_output=True, text=True, timeout=timeout)
    except subprocess.TimeoutExpired as ex:
        shutil.rmtree(meta, ignore_errors=True)
        raise TLCError("TLC timeout after %ss on %s %s" % (timeout, module, cfg))
    finally:
        shutil.rmtree(meta, ignore_errors=True)
    out = r.stdout
    res = {"stdout": out, "rc": r.returncode, "wall": time.time() - t0, "module": module, "cfg": cfg}
    m = re.search(r"(\d+) states generated, (\d+) distinct states found, (\d+) states left", out)
    if m:
        res["generated"], res["distinct"], res["left"] = int(m.group(1)), int(m.group(2)), int(m.group(3))
    res["completed"] = "Model checking completed. No error has been found." in out
    res["invariant_violated"] = re.findall(r"Invariant (\S+) is violated", out)
    return res


def model_check(module, cfg_name, workers=8, timeout=None, env=None, heap="6g", coverage=False):
    """Act M: exhaustive check of spec/<cfg_name>. Raises TLCError unless it completes without error."""
    # exhaustive runs of the thorough tier may take long on a loaded machine: 1 h quick, 6 h thorough
    if timeout is None:
        timeout = 21600 if os.environ.get("VERIF_TIER_EFFECTIVE") == "thorough" else 3600
    res = tlc(module, os.path.join(SPEC, cfg_name), workers=workers, timeout=timeout, env=env, heap=heap,
              tag=cfg_name, coverage=coverage)
    if not res["completed"]:
        tail = res["stdout"][-3000:]
        raise TLCError("Act M failed for %s/%s (design-level counterexample or TLC error):\n%s"
                       % (module, cfg_name, tail))
    return res


def expect_violation(module, cfg_name, invariant=None, workers=4, timeout=900):
    """Sensitivity self-test: a deliberately wrong design must be refuted by TLC."""
    res = tlc(module, os.path.join(SPEC, cfg_name), workers=workers, timeout=timeout, tag=cfg_name)
    inv = res["invariant_violated"]
    if not inv or (invariant and invariant not in inv):
        raise TLCError("self-test %s/%s: expected a counterexample, TLC said:\n%s"
                       % (module, cfg_name, res["stdout"][-1500:]))
    return res


def model_check_many(jobs, parallel=4):
    """jobs: list of (module, cfg_name, workers). Run concurrently; returns list of results."""
    with ThreadPoolExecutor(max_workers=parallel) as ex:
        futs = [ex.submit(model_check, m, c, w) for (m, c, w) in jobs]
        return [f.result() for f in futs]


# TLC pretty-prints long tuples over several lines: allow arbitrary whitespace between the parts
_VERDICT = re.compile(r'<<\s*"VERDICT-FAIL",\s*("?)([^,"]+)\1,\s*"([^"]*)"\s*>>')


def _validate_chunk(module, cfg_name, path, nrec, workers, timeout, extra_env):
    env = {"TRACE_FILE": path}
    if extra_env:
        env.update(extra_env)
    res = tlc(module, os.path.join(SPEC, cfg_name), workers=workers, env=env, timeout=timeout,
              heap="2g", tag="trace")
    out = res["stdout"]
    if not res["completed"]:
        raise TLCError("trace validation run failed (%s, %s):\n%s" % (module, path, out[-3000:]))
    fails = [(m.group(2), m.group(3)) for m in _VERDICT.finditer(out)]
    if out.count('"VERDICT-FAIL"') != len(fails):
        raise TLCError("could not parse every VERDICT-FAIL line of %s:\n%s" % (path, out[-2000:]))
    m = re.search(r'<<"VERDICT-COUNT", (\d+)>>', out)
    judged = int(m.group(1)) if m else None
    res["fails"] = fails
    res["judged"] = judged
    res["notes"] = [(m.group(2), m.group(3)) for m in re.finditer(
        r'<<\s*"VERDICT-NOTE",\s*("?)([^,"]+)\1,\s*"([^"]*)"\s*>>', out)]
    return res


def corrupt_number(x):
    """First non-negative integer found in a nested structure is increased by one (depth first)."""
    if isinstance(x, bool):
        return x, False
    if isinstance(x, int):
        if x >= 0:
            return x + 1, True
        return x, False
    if isinstance(x, list):
        out = list(x)
        for i, v in enumerate(out):
            nv, done = corrupt_number(v)
            if done:
                out[i] = nv
                return out, True
        return out, False
    if isinstance(x, dict):
        out = dict(x)
        for k, v in out.items():
            nv, done = corrupt_number(v)
            if done:
                out[k] = nv
                return out, True
        return out, False
    return x, False


def make_canary(records, fields):
    """A copy of a real record with one recorded value corrupted: the trace spec must reject it
    (demonstrates that the specification is bound to the recorded fields)."""
    import copy
    for rec in records[:200]:
        for f in fields:
            if callable(f):
                c = f(copy.deepcopy(rec))
                if c is not None:
                    c["id"] = "CANARY"
                    return c
                continue
            if f in rec:
                nv, done = corrupt_number(rec[f])
                if done:
                    c = copy.deepcopy(rec)
                    c[f] = nv
                    c["id"] = "CANARY"
                    return c
    return None


def validate_traces(module, cfg_name, records, chunk=1500, parallel=8, workers=2, timeout=None,
                    extra_env=None, steps_per_record=None, canary_fields=None):
    """(see below)  canary_fields: fields to corrupt for the binding self-test."""
    if timeout is None:      # per TLC invocation (one chunk of records); generous in the thorough tier
        timeout = 14400 if os.environ.get("VERIF_TIER_EFFECTIVE") == "thorough" else 1800
    canary = make_canary(records, canary_fields) if canary_fields else None
    if canary is not None:
        records = [canary] + list(records)
    res = _validate_traces(module, cfg_name, records, chunk, parallel, workers, timeout, extra_env)
    if canary_fields:
        if canary is None:
            res["canary"] = "no suitable record"
        elif "CANARY" not in res["fails"]:
            raise TLCError("binding self-test failed: %s accepted a corrupted record (%s)" % (module, canary_fields))
        else:
            res["canary"] = res["fails"].pop("CANARY")
            res["judged"] -= 1
    return res


def _validate_traces(module, cfg_name, records, chunk=1500, parallel=8, workers=2, timeout=1800,
                     extra_env=None):
    """Act T: have TLC judge every record with the trace spec spec/<module>.tla.

    records: list of JSON-able dicts, each with a unique 'id'.
    Returns dict(fails={id: clause}, states, transitions, judged).
    Each record becomes at least one TLC state; the spec prints a VERDICT-FAIL line per rejected record.
    """
    d = tempfile.mkdtemp(prefix="traces-", dir=run_dir())
    chunks = [records[i:i + chunk] for i in range(0, len(records), chunk)]
    paths = []
    for n, ch in enumerate(chunks):
        p = os.path.join(d, "t%04d.json" % n)
        with open(p, "w") as fh:
            json.dump(ch, fh, separators=(",", ":"))
        paths.append((p, len(ch)))
    fails = {}
    notes = []
    states = trans = 0
    with ThreadPoolExecutor(max_workers=parallel) as ex:
        futs = [ex.submit(_validate_chunk, module, cfg_name, p, n, workers, timeout, extra_env)
                for (p, n) in paths]
        for f, (p, n) in zip(futs, paths):
            res = f.result()
            for rid, clause in res["fails"]:
                fails.setdefault(rid, clause)
            notes += res["notes"]
            states += res.get("distinct", 0)
            trans += res.get("generated", 0)
            # vacuity guard: every record must have been reached by TLC
            min_states = 1 + n
            if res.get("distinct", 0) < min_states:
                raise TLCError("trace run explored %s states for %d records (%s)" % (res.get("distinct"), n, p))
    shutil.rmtree(d, ignore_errors=True)
    return {"fails": fails, "states": states, "transitions": trans, "judged": len(records), "notes": notes}


def sany(module):
    global _CP
    if _CP is None:
        _CP = _classpath()
    r = subprocess.run(["java", "-cp", _CP, "tla2sany.SANY", os.path.join(SPEC, module + ".tla")],
                       cwd=SPEC, capture_output=True, text=True)
    ok = r.returncode == 0 and "Semantic errors" not in r.stdout and "***Parse Error***" not in r.stdout \
        and "Fatal errors" not in r.stdout
    return ok, r.stdout
