"""Driver for properties judged on accumulated-cost matrices (kind "wps") and paths (kind "path")."""
import json

from . import build, core, dtwcases as dc, dtwx, tlc
from .dtwfamily import act_m, classify


def run_records_family(ctx, cases, worker, kind, mc_cfgs=(), rule="", mc_module="MC_DTWCore", chunk=600,
                       extra_fields=("routes",)):
    ctx.rule = rule
    ctx.log("building /repo working tree")
    src = build.py_build()
    act_m(ctx, list(mc_cfgs), module=mc_module)
    ctx.log("running %d cases through the implementation" % len(cases))
    outs = core.pool_map(src, "harness.dtwx", worker, cases)
    by_id = {c["id"]: c for c in cases}
    records = []
    for c, o in zip(cases, outs):
        rec = {"id": c["id"], "kind": kind, "c": dtwx.tla_case(c)}
        if o.get("crashed"):
            o = dict(CRASH[kind])
        for k, v in o.items():
            if k != "id":
                rec[k] = v
        c["_rec"] = rec
        records.append(rec)
        ctx.evaluations += len(rec.get("routes", []))
    ctx.log("Act T: TLC judges %d records (%d observations)" % (len(records), ctx.evaluations))
    res = tlc.validate_traces("DTWTrace", "DTWTrace.cfg", records, chunk=chunk)
    ctx.add_tv(res)
    classify(ctx, by_id, res["fails"])
    ctx.nontrivial = {json.dumps(dtwx.tla_case(c), sort_keys=True) for c in cases if dc.is_nontrivial(c)}
    ctx.samples = [c["_rec"] for c in cases[:: max(1, len(cases) // 4)]][:4]
    return core.finish(ctx)


CRASH = {
    "wps": {"routes": ["PROCESS-CRASH"], "mat": [[]], "d": [-5], "neg": [False], "slices": []},
    "path": {"routes": ["PROCESS-CRASH"], "paths": [[]], "d": [-5]},
}
