"""Driver for properties judged on accumulated-cost matrices (kind "wps") and paths (kind "path")."""
import json

from . import build, core, dtwcases as dc, dtwx, tlc
from .dtwfamily import act_m, classify


def judge_pass(ctx, src, cases, worker, kind, chunk=600, env=None, tag=""):
    """Run the cases through one worker, have TLC judge the records, classify rejections."""
    ctx.log("running %d cases through the implementation (%s)" % (len(cases), worker))
    outs = core.pool_map(src, "harness.dtwx", worker, cases, env=env)
    by_id = {c["id"]: c for c in cases}
    records = []
    nobs = 0
    for c, o in zip(cases, outs):
        rec = {"id": c["id"], "kind": kind, "c": dtwx.tla_case(c), "prune": bool(c.get("prune"))}
        if o.get("crashed"):
            o = dict(CRASH[kind])
        for k, v in o.items():
            if k != "id":
                rec[k] = v
        c["_rec"] = rec
        records.append(rec)
        nobs += len(rec.get("routes", []))
    ctx.evaluations += nobs
    ctx.log("Act T: TLC judges %d records (%d observations)" % (len(records), nobs))
    res = tlc.validate_traces("DTWTrace", "DTWTrace.cfg", records, chunk=chunk, canary_fields=["obs", "d", "lb", "base", "starts"])
    ctx.add_tv(res)
    if res.get("notes"):
        ctx.extra["reference_deviates_from_spec"] = ctx.extra.get("reference_deviates_from_spec", 0) + len(res["notes"])
    classify(ctx, by_id, res["fails"])
    if not isinstance(ctx.nontrivial, set):
        ctx.nontrivial = set()
    ctx.nontrivial |= {json.dumps(dtwx.tla_case(c), sort_keys=True) for c in cases if dc.is_nontrivial(c)}
    ctx.samples += [c["_rec"] for c in cases[:: max(1, len(cases) // 3)]][:3]


def run_records_family(ctx, cases, worker, kind, mc_cfgs=(), rule="", mc_module="MC_DTWCore", chunk=600,
                       extra_fields=("routes",)):
    ctx.rule = rule
    ctx.log("building /repo working tree")
    src = build.py_build()
    act_m(ctx, list(mc_cfgs), module=mc_module)
    judge_pass(ctx, src, cases, worker, kind, chunk=chunk)
    return core.finish(ctx)


CRASH = {
    "wps": {"routes": ["PROCESS-CRASH"], "mat": [[]], "d": [-5], "neg": [False], "slices": []},
    "path": {"routes": ["PROCESS-CRASH"], "paths": [[]], "d": [-5]},
    "pathto": {"routes": ["PROCESS-CRASH"], "paths": [[]], "starts": [[1, 1]]},
    "dist": {"routes": ["PROCESS-CRASH"], "obs": [-5]},
    "agree": {"routes": ["PROCESS-CRASH", "PROCESS-CRASH"], "obs": [-5, -6]},
}
