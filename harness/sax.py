"""Worker-side execution of subsequence-alignment cases (C13)."""
import itertools

from . import dtwx

_np = None


def np():
    global _np
    if _np is None:
        import numpy
        _np = numpy
    return _np


def case_of(it):
    c = dict(it["set"])
    c["S"] = it["S"]
    c["s1"] = it["q"]
    c["s2"] = it["s"]
    return c


def arr(pts, S):
    nd = len(pts[0])
    a = np().array([[x / S for x in p] for p in pts], dtype=np().double)
    return a[:, 0].copy() if nd == 1 else a


def run_c13(it):
    from dtaidistance.subsequence.subsequencealignment import subsequence_alignment, SubsequenceAlignment
    c = case_of(it)
    S = it["S"]
    q = arr(it["q"], S)
    s = arr(it["s"], S)
    lq = len(it["q"])
    pen = it["set"]["pen"] / S
    mf, matches, iters = [], [], []

    def cost_of(value):
        # value = distance / len(query)
        return dtwx.enc_cost(c, float(value) * lq)

    # the same numbers in another memory layout (Fortran order for multivariate series, every second element
    # of a larger array for univariate ones): the matching function may not depend on it
    def relayout(a):
        if a.ndim == 2:
            return np().asfortranarray(a)
        b = np().zeros(2 * len(a))
        b[::2] = a
        return b[::2]
    for use_c in (False, True):
        tag = "c" if use_c else "py"
        r = dtwx.guarded(lambda: subsequence_alignment(relayout(q), relayout(s), penalty=pen, use_c=use_c).matching_function())
        if dtwx.is_raised(r):
            mf.append({"route": tag + ":matching_function[other memory layout]:raised", "vals": [dtwx.RAISED]})
        else:
            mf.append({"route": tag + ":matching_function[other memory layout]", "vals": [cost_of(v) for v in r]})
    for use_c in (False, True):
        tag = "c" if use_c else "py"
        r = dtwx.guarded(lambda: subsequence_alignment(q, s, penalty=pen, use_c=use_c))
        if dtwx.is_raised(r):
            mf.append({"route": tag + ":subsequence_alignment:raised", "vals": [dtwx.RAISED]})
            continue
        sa = r
        m = sa.matching_function()
        mf.append({"route": tag + ":matching_function", "vals": [cost_of(v) for v in m]})
        # every end point, not only the best one
        for e in range(len(it["s"])):
            def one():
                mt = sa.get_match(e)
                b, ee = mt.segment
                return {"route": tag + ":match[%d]" % e, "e": int(ee), "b": int(b),
                        "path": dtwx.enc_path(mt.path), "cost": dtwx.enc_cost(c, mt.distance)}
            r2 = dtwx.guarded(one)
            if dtwx.is_raised(r2):
                matches.append({"route": tag + ":match[%d]:raised" % e, "e": -1, "b": -1, "path": [[-3, -3]], "cost": -3})
            else:
                matches.append(r2)
        bm = dtwx.guarded(lambda: sa.best_match())
        if not dtwx.is_raised(bm):
            b, ee = bm.segment
            matches.append({"route": tag + ":best_match", "e": int(ee), "b": int(b), "path": dtwx.enc_path(bm.path),
                            "cost": dtwx.enc_cost(c, bm.distance)})
            # the best match is a minimum of the matching function
            if float(bm.value) != float(min(m)):
                matches[-1]["cost"] = -7
        # iterator histories: several generators over ONE alignment object, interleaved
        gens = []
        for (k, ov, mn, mx) in it["iters"]:
            gens.append(sa.kbest_matches(k=(None if k < 0 else k), overlap=ov, minlength=(None if mn < 0 else mn),
                                         maxlength=(None if mx < 0 else mx)))
        outs = [[] for _ in gens]
        alive = list(range(len(gens)))
        order = it["order"]
        pos = 0
        err = [None] * len(gens)
        while alive and pos < 200:
            g = alive[order[pos % len(order)] % len(alive)]
            pos += 1
            try:
                mt = next(gens[g])
                b, ee = mt.segment
                outs[g].append(([int(b), int(ee)], cost_of(mt.value)))
            except StopIteration:
                alive.remove(g)
            except Exception as exc:
                err[g] = str(exc)
                alive.remove(g)
        for gi, (k, ov, mn, mx) in enumerate(it["iters"]):
            # the same generator alone on a fresh object
            def alone():
                sa2 = SubsequenceAlignment(q, s, penalty=pen, use_c=use_c)
                return [([int(m2.segment[0]), int(m2.segment[1])], cost_of(m2.value)) for m2 in
                        sa2.kbest_matches(k=(None if k < 0 else k), overlap=ov, minlength=(None if mn < 0 else mn),
                                          maxlength=(None if mx < 0 else mx))]
            al = dtwx.guarded(alone)
            same = (not dtwx.is_raised(al)) and err[gi] is None and al == outs[gi]
            iters.append({"route": "%s:kbest_matches(k=%d,overlap=%d,minlength=%d,maxlength=%d)%s" % (
                tag, k, ov, mn, mx, ":raised" if err[gi] else ""),
                "k": k, "overlap": ov, "minl": mn, "maxl": mx, "segs": [o[0] for o in outs[gi]],
                "vals": [o[1] for o in outs[gi]], "same": bool(same)})
    routes = [x["route"] for x in mf + matches + iters]
    return {"id": it["id"], "mf": mf, "matches": matches, "iters": iters, "routes": routes}
