"""C06 - distance matrix = pairwise distances in the documented layout, for any block."""
import json

from harness import build, core, tlc
from harness.dmfamily import all_blocks, dm_pass, make_collection, settings_template

PID = "C06"


def items(ctx):
    q = ctx.quick
    rng = ctx.rng("c06")
    out = []
    nmax = 5 if q else 6
    for n in range(1, nmax + 1):
        blocks = all_blocks(n)
        # the complete block space, each block on a fresh collection; plus "no block"
        reps = 1 if q else 2
        for rep in range(reps):
            for (blk, triu) in blocks:
                nd = 2 if rng.random() < 0.25 else 1
                equal = rng.random() < 0.4
                ser = make_collection(rng, n, nd=nd, equal=equal)
                out.append({"n": n, "ser": ser, "S": 1, "set": settings_template(rng, ser), "blk": blk,
                            "triu": triu, "noblock": False})
        for rep in range(4):
            nd = 2 if rep == 3 else 1
            ser = make_collection(rng, n, nd=nd, equal=(rep % 2 == 0))
            out.append({"n": n, "ser": ser, "S": 1, "set": settings_template(rng, ser), "blk": [0, n, 0, n],
                        "triu": True, "noblock": True})
    for k, it in enumerate(out):
        it["id"] = "c06-%d" % k
    return out


RULE = ("cases: the COMPLETE block space 0<=rb<re<=n, 0<=cb<ce<=n, triangular and non-triangular, for n <= 5 (quick) / "
        "6 (thorough), plus 'no block', each on a collection of short series (equal/unequal lengths, list / 2-D / 3-D "
        "array containers, ndim 1-2) with random window/penalty/psi/inner distance; recorded per case: three length "
        "functions, the index list, the compact result through 6-9 routes (Python, C serial, Cython, direct "
        "dtw_distances_* calls with an output buffer of exactly the advertised length), square forms (mirrored and "
        "only_triu) and distance_array_index; TLC judges layout and every value; non-trivial = a block was given")


def run(ctx):
    ctx.rule = RULE
    ctx.exhaustive = True
    src = build.py_build()
    cfg = "MC_DistMatrix_q.cfg" if ctx.quick else "MC_DistMatrix_t.cfg"
    ctx.log("Act M: %s" % cfg)
    ctx.add_mc(tlc.model_check("MC_DistMatrix", cfg, workers=8))
    dm_pass(ctx, src, items(ctx), "run_c06")
    return core.finish(ctx)


def replay(ctx, path):
    rec = json.load(open(path))
    src = build.py_build()
    dm_pass(ctx, src, [rec["case"]], "run_c06")
    return core.finish(ctx)
