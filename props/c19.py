"""C19 - distance-to-similarity and squashing are monotone, bounded, faithful."""
import itertools
import json

from harness import build, core, findings, tlc
from harness.dtwfamily import classify

PID = "C19"


def items(ctx):
    q = ctx.quick
    rng = ctx.rng("c19")
    out = []
    arrays = []
    for n, shape in ((1, [1]), (3, [3]), (4, [2, 2])):
        for t in itertools.product((0, 1, 2, 4), repeat=n):
            arrays.append((list(t), shape))
    if not q:
        # thorough: a wider alphabet, longer arrays and a 2x3 matrix (seeded samples)
        for t in itertools.product((0, 1, 2, 3, 4, 8), repeat=3):
            if set(t) - {0, 1, 2, 4}:
                arrays.append((list(t), [3]))
        for _ in range(400):
            n = rng.choice((2, 5, 6))
            t = [rng.choice((0, 1, 2, 3, 4, 6, 8)) for _k in range(n)]
            arrays.append((t, [2, 3] if n == 6 and rng.random() < 0.5 else [n]))
    for (D, shape) in arrays:
        if q and len(D) > 1 and rng.random() > 0.8:
            continue
        calls = []
        for m in ("exponential", "gaussian", "reciprocal", "reverse"):
            calls.append({"kind": "d2s", "method": m})
            calls.append({"kind": "d2s", "method": m, "r": rng.choice([[1, 1], [2, 1], [4, 1], [1, 2], [8, 1]])})
            cq = rng.choice([0.5, 0.8, [0.5, 0.25]])
            qv = cq[0] if isinstance(cq, list) else cq
            import numpy as _np
            # a target at distance 0 is not satisfiable; exponential / gaussian / reverse define the result anyway
            # (a derived scale of 0 is replaced by 1), the reciprocal transform does not
            if _np.quantile(_np.array(D, dtype=float), qv) > 0 or m != "reciprocal":
                calls.append({"kind": "d2s", "method": m, "cq": cq})
        calls.append({"kind": "d2s", "method": "reciprocal", "r": [1, 1], "a": rng.choice([[1, 2], [2, 1], [3, 1]])})
        for m in ("logistic", "gaussian", "exponential"):
            calls.append({"kind": "squash", "method": m})
            calls.append({"kind": "squash", "method": m, "r": rng.choice([[1, 1], [2, 1], [1, 2]]), "base": 2,
                          "x0": rng.choice([None, [0, 1], [1, 1], [2, 1]])})
            calls.append({"kind": "squash", "method": m, "r": [1, 1]})
            calls.append({"kind": "squash", "method": m, "keep_sign": True})
            # keep_sign together with an explicit base / midpoint (the zero offset is computed in that base)
            calls.append({"kind": "squash", "method": m, "keep_sign": True, "base": rng.choice([2, 10]),
                          "r": rng.choice([[1, 1], [2, 1]]), "x0": rng.choice([None, [0, 1], [1, 1], [2, 1]])})
            # ... and on signed data (the array shifted down): still non-decreasing, signs kept
            calls.append({"kind": "squash", "method": m, "keep_sign": True, "shift": rng.choice([1, 2]),
                          "base": rng.choice([None, 2, 10]), "r": rng.choice([[1, 1], [2, 1]]),
                          "x0": rng.choice([[0, 1], [1, 1], [2, 1]])})
            cq = rng.choice([0.8, 0.9, [0.75, 0.9]])
            qv = cq[0] if isinstance(cq, list) else cq
            import numpy as _np
            arr = _np.array(D, dtype=float)
            # the requested point must lie above the midpoint (logistic) / above 0, else no increasing squash exists
            if _np.quantile(arr, qv) > (arr.mean() if m == "logistic" else 0):
                calls.append({"kind": "squash", "method": m, "cq": cq})
        # the call covered by a known finding goes last so that it cannot mask another rejection of the record
        calls.sort(key=lambda c: (c["kind"] == "d2s" and c["method"] == "reciprocal" and "cq" in c))
        out.append({"D": D, "shape": shape, "calls": calls})
    for k, it in enumerate(out):
        it["id"] = "c19-%d" % k
    return out


RULE = ("model: parameter-resolution table and per-method value/argument as exact rationals; the promised properties "
        "(monotone, zero -> maximal, range [0,1] under the default scale, positive derived scale) model-checked for all "
        "distance arrays over {0,1,2,4} up to length 3 x methods x given/derived parameters. implementation: all arrays "
        "over {0,1,2,4} of shapes (1,), (3,), (2,2) (quick: thinned) x every method of distance_to_similarity and squash "
        "x {defaults, explicit r / a / x0 / base, cover_quantile scalar and pair, keep_sign}; recorded per call: values "
        "as exact rationals or the rational argument recovered from the value (ln S, log_b(1-S), log_b(S/(1-S))), dense "
        "ranks, range flags, reported parameters and whether re-application with the reported parameters reproduces "
        "the output; non-trivial = array with at least two distinct values")


def _canary(rec):
    for c in rec["calls"]:
        if c["mode"] == "exact" and not c["raised"] and c["kind"] == "d2s" and c["method"] == "reciprocal":
            for v in c["vals"]:
                if v[1] > 0:
                    v[0] += 1
                    return rec
    return None


def judge(ctx, src, its):
    ctx.log("running %d similarity cases" % len(its))
    outs = core.pool_map(src, "harness.simx", "run_c19", its, chunksize=20)
    records, by_id = [], {}
    for it, o in zip(its, outs):
        if o.get("crashed"):
            raise RuntimeError("worker crashed")
        rec = {"id": it["id"], "kind": "sim"}
        rec.update({k: v for k, v in o.items() if k != "id"})
        it["_rec"] = rec
        by_id[it["id"]] = it
        records.append(rec)
        ctx.evaluations += len(rec["routes"])
    ctx.log("Act T: TLC judges %d records (%d calls)" % (len(records), ctx.evaluations))
    res = tlc.validate_traces("SimTrace", "SimTrace.cfg", records, chunk=60, parallel=12, canary_fields=[_canary])
    ctx.add_tv(res)
    classify(ctx, by_id, res["fails"])
    ctx.nontrivial = {it["id"] for it in its if len(set(it["D"])) > 1}
    ctx.samples = [it["_rec"] for it in its[:: max(1, len(its) // 3)]][:3]
    return core.finish(ctx)


def run(ctx):
    ctx.rule = RULE
    src = build.py_build()
    ctx.log("Act M: MC_Similarity_q.cfg")
    ctx.add_mc(tlc.model_check("MC_Similarity", "MC_Similarity_q.cfg", workers=8))
    return judge(ctx, src, items(ctx))


def replay(ctx, path):
    rec = json.load(open(path))
    return judge(ctx, build.py_build(), [rec["case"]])
