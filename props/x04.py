"""X04 (extension, not one of the listed properties) - util.DetectKnee and the range-factor iterator
SubsequenceAlignment.best_matches."""
import json

from harness import build, core, tlc

PID = "X04"
RULE = ("model: the knee detector as a state machine over exact fixed-point numbers, all value sequences over "
        "{0,1,2,5} up to length 6 and alpha in {1/4, 1/2, 3/4}: no stop before the fifth value, no stop on a new "
        "minimum, average inside the range of the values, the fold used for traces equals the incremental machine. "
        "implementation: recorded dostop decisions on seeded sequences; SubsequenceAlignment.best_matches(f, overlap, "
        "minlength, maxlength) must be the longest prefix of kbest_matches(k=None, same options) whose values stay "
        "within f times the first value (f in {1, 3/2, 2, 3}, both engines; records with a value exactly on the "
        "boundary are skipped)")


def items(ctx):
    q = ctx.quick
    rng = ctx.rng("x04")
    out = []
    for _ in range(400 if q else 6000):
        n = rng.randint(1, 7)
        out.append({"kind": "knee", "a4": rng.choice([1, 2, 3]),
                    "vals": sorted(rng.choice((0, 1, 2, 3, 5, 8)) for _ in range(n)) if rng.random() < 0.5
                    else [rng.choice((0, 1, 2, 3, 5, 8)) for _ in range(n)]})
    for _ in range(300 if q else 5000):
        lq = rng.randint(1, 3)
        ls = rng.randint(2, 9)
        pen, S = rng.choice([(0, 1), (1, 1), (1, 2)])
        out.append({"kind": "range", "q": [[rng.choice((0, 1, 2, 5))] for _ in range(lq)],
                    "s": [[rng.choice((0, 1, 2, 5))] for _ in range(ls)], "S": S,
                    "set": {"s1": [[0]], "s2": [[0]], "inner": "sq", "w": 0, "pen": pen, "ms": 0, "md": 0, "mld": -1,
                            "psi": [0, 0, 0, 0]},
                    "f": rng.choice([(1, 1), (3, 2), (2, 1), (3, 1)]),
                    "opts": (rng.choice([0, 0, 1]), rng.choice([-1, 1, 2]), rng.choice([-1, -1, 3, 4])),
                    "use_c": rng.random() < 0.5})
    for k, it in enumerate(out):
        it["id"] = "x04-%d" % k
    return out


def _canary(rec):
    if rec["kind"] == "knee" and rec["stops"]:
        rec["stops"][0] = True          # the first call never stops
        return rec
    return None


def judge(ctx, src, its):
    ctx.log("running %d cases (run_x04)" % len(its))
    outs = core.pool_map(src, "harness.kneex", "run_x04", its, chunksize=40)
    records, by_id = [], {}
    skipped = 0
    for it, o in zip(its, outs):
        if o.get("crashed"):
            o = {"kind": "knee", "a4": 1, "vals": [0], "stops": [True], "route": "PROCESS-CRASH"}
        if o.get("tie"):
            skipped += 1
            continue
        rec = {k: v for k, v in o.items() if k not in ("id", "tie")}
        rec["id"] = it["id"]
        it["_rec"] = rec
        by_id[it["id"]] = it
        records.append(rec)
        ctx.evaluations += 1
    ctx.extra["boundary_ties_skipped"] = skipped
    ctx.log("Act T: TLC judges %d records" % len(records))
    res = tlc.validate_traces("KneeTrace", "KneeTrace.cfg", records, chunk=300, parallel=8, canary_fields=[_canary])
    ctx.add_tv(res)
    nv = 0
    for rid, clause in sorted(res["fails"].items()):
        it = by_id[rid]
        nv += 1
        path = core.write_replay(ctx, rid, {"property": PID, "case": {k: v for k, v in it.items() if k != "_rec"},
                                            "rejected_clause": clause, "record": it["_rec"]}) if nv <= 10 \
            else ctx.violations[0][1]
        ctx.violations.append(("%s rejected at %s" % (rid, clause), path))
    ctx.nontrivial = {it["id"] for it in its if "_rec" in it and (it["kind"] == "range" or len(it["vals"]) >= 5)}
    ctx.samples = [it["_rec"] for it in its if "_rec" in it][:: max(1, len(its) // 3)][:3]
    return core.finish(ctx)


def run(ctx):
    ctx.rule = RULE
    src = build.py_build()
    ctx.add_mc(tlc.model_check("MC_Knee", "MC_Knee_q.cfg", workers=8))
    return judge(ctx, src, items(ctx))


def replay(ctx, path):
    rec = json.load(open(path))
    return judge(ctx, build.py_build(), [rec["case"]])
