"""C02 - the C engine returns the same distances as the Python engine."""
import json

from harness import dtwcases as dc
from harness.dtwfamily import run_dist_family

PID = "C02"
QUICK_MC = ["MC_DTWCore_c01q2.cfg"]
THOROUGH_MC = ["MC_DTWCore_c01q.cfg", "MC_DTWCore_c01q3.cfg"]

RECT2 = [(0, 0), (3, 0), (0, 4), (3, 4)]
RECT3 = [(0, 0, 0), (3, 4, 0), (3, 4, 12), (0, 0, 12)]   # all pairwise distances are integers


def ndim_cases(rng, n, Lmax, points, inners, **kw):
    return dc.random_cases(rng, n, Lmax, None, points=points, inners=inners, **kw)


def cases(ctx):
    q = ctx.quick
    sd = ctx.seed
    out = []
    out += dc.slice_values(3, (0, 1, 3), (0, 1, 2, 3), (0, 1), frac=0.5 if q else 1.0, seed=sd, salt="a")
    out += dc.slice_values(4, (0, 1, 3), (0, 1, 2, 3, 4), (0, 1), frac=0.03 if q else 0.5, seed=sd, salt="b")
    out += dc.slice_psi(3, (0, 2), (0, 1, 2, 3), pens=(0, 1), frac=0.05 if q else 1.0, seed=sd, salt="c")
    for inner in ("sq", "eu"):
        for ms in (1, 2):
            out += dc.slice_values(3, (0, 1, 3), (0, 1, 2), (0, 1), ms=ms, inner=inner, frac=0.15 if q else 1.0,
                                   seed=sd, salt="d")
        for md in (3, 5, 9):
            out += dc.slice_values(3, (0, 1, 3), (0, 2), (0, 1), md=md, inner=inner, frac=0.1 if q else 1.0,
                                   seed=sd, salt="e")
        out += dc.slice_values(3, (0, 1, 3), (0, 1, 2), (0, 1, 2), inner=inner, S=2, frac=0.15 if q else 1.0,
                               seed=sd, salt="f")
        out += dc.slice_psi(3, (0, 2), (0, 2), pens=(0, 1), pmax=2, inner=inner, frac=0.03 if q else 0.5,
                            seed=sd, salt="g")
        out += dc.slice_values(3, (0, 1, 3), (0, 1, 2), (0,), inner=inner, prune=True, frac=0.3 if q else 1.0,
                               seed=sd, salt="h")
    for mld in (1, 2):
        out += dc.slice_values(3, (0, 1, 3), (0, 2), (0,), mld=mld, frac=0.2 if q else 1.0, seed=sd, salt="i")
    rng = ctx.rng("c02")
    n = 3000 if q else 60000
    out += dc.random_cases(rng, n, 7 if q else 9, (0, 1, 2, 3, 5), inners=("sq", "eu"), pens=(0, 0, 1, 2),
                           mss=(0, 0, 0, 2, 3), mlds=(-1, -1, -1, 1, 3), mds=(0, 0, 0, 5, 9, 15), psi_prob=0.5)
    # thresholds on the cost lattice: both engines must treat "equal to max_dist" alike
    out += dc.random_cases(rng, n // 3, 7, (0, 1, 2, 3), inners=("sq", "eu"), pens=(0, 0, 1), mds=(2, 4, 6, 8),
                           psi_prob=0.3)
    out += dc.random_cases(rng, n // 3, 7, (-3, -1, 0, 2), S=2, inners=("sq", "eu"), pens=(0, 1, 3), mss=(0, 0, 5),
                           psi_prob=0.3)
    # relaxed ends under a sliding band (1-D and 2-D): the end scans of the C kernels with skipped columns
    out += dc.sliding_end_cases(rng, n // 4, [(0,), (1,), (3,), (6,)], ("sq", "eu"))
    out += dc.sliding_end_cases(rng, n // 4, RECT2, ("sq", "eu"))
    # multivariate (ndim 2, 3): point alphabets with integer pairwise Euclidean distances
    out += ndim_cases(rng, n // 2, 5, RECT2, ("sq", "eu"), pens=(0, 1), mss=(0, 0, 4), mds=(0, 0, 7), psi_prob=0.3)
    out += ndim_cases(rng, n // 3, 5, RECT3, ("sq", "eu"), pens=(0, 1), mss=(0, 0, 5), mds=(0, 0, 11), psi_prob=0.3)
    out += ndim_cases(rng, n // 4, 6, RECT2, ("sq", "eu"), pens=(0,), psi_prob=0.0, prune=True)
    out += ndim_cases(rng, n // 4, 6, RECT3, ("sq", "eu"), pens=(0,), psi_prob=0.0, prune=True)
    # use_pruning together with everything else (penalty with unequal lengths, max_step, an explicit max_dist,
    # max_length_diff): the Euclidean bound need not be valid there, but the engines must still agree
    out += dc.random_cases(rng, n // 2, 6, (0, 1, 2, 3, 5), inners=("sq", "eu"), pens=(0, 1, 2, 3), mss=(0, 0, 2),
                           mds=(0, 0, 3, 5, 9), mlds=(-1, -1, 1), psi_prob=0.3, prune=True)
    out += ndim_cases(rng, n // 6, 5, RECT2, ("sq", "eu"), pens=(0, 1, 2), mds=(0, 5, 7), psi_prob=0.2, prune=True)
    return dc.with_ids(out, "c02-")


def run(ctx):
    return run_dist_family(ctx, cases(ctx), worker="run_c02", kind="agree",
                           mc_cfgs=QUICK_MC if ctx.quick else QUICK_MC + THOROUGH_MC,
                           rule="cases: C01 slices restricted to settings both engines accept (no custom inner distance, "
                                "max_length_diff != 0) plus max_dist, use_pruning, half-integer alphabets, ndim 2-3 with "
                                "integer-distance point alphabets; each case through 6-8 call routes (dtw.distance(use_c), "
                                "distance_fast, dtw_cc.distance with 0=off encodings, dtw_ndim.*, C distance-matrix routine, "
                                "direct ctypes call of dtw_distance(_ndim) built from /repo's C sources) and the Python "
                                "engine; non-trivial as in C01")


def replay(ctx, path):
    rec = json.load(open(path))
    return run_dist_family(ctx, [rec["case"]], worker="run_c02", kind="agree", mc_cfgs=[], rule="replay")
