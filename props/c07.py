"""C07 - parallel distance-matrix computation is schedule-independent."""
import json
import os

from harness import build, core, ompparse, tlc
from harness.dmfamily import all_blocks, dm_pass, make_collection, settings_template

PID = "C07"
THREADS_Q = [2, 3, 16]
THREADS_T = [1, 2, 3, 4, 7, 16, 64]


def write_cfg(shared, base, name):
    """Model constants extracted from the source: SharedVars of one parallel loop."""
    src = open(os.path.join(tlc.SPEC, base)).read()
    sv = "{" + ", ".join('"%s"' % ompparse.NAMES[v] for v in shared) + "}"
    out = src.replace("SharedVars = {}", "SharedVars = " + sv)
    d = tlc.run_dir()
    p = os.path.join(d, name)
    open(p, "w").write(out)
    return p


def model(ctx):
    fns = ompparse.parse()
    ctx.extra["parallel_loops"] = fns
    if not fns:
        ctx.log("no '#pragma omp parallel for' found in dd_dtw_openmp.c: nothing to derive from the source")
    bases = ["ParallelDM_q2.cfg", "ParallelDM_q3.cfg"] if ctx.quick else ["ParallelDM_q2.cfg", "ParallelDM_t.cfg"]
    seen = {}
    for f in fns:
        if f.get("unparsed"):
            continue
        if f["benign"]:
            ctx.log("%s: shared scalars %s are write-only or loop-invariant (noted, not a violation)"
                    % (f["function"], f["benign"]))
        if f["harmful"]:
            path = core.write_replay(ctx, "shared-%s" % f["function"], {"property": PID, "function": f,
                                     "why": "scalars assigned from per-iteration state and read in the parallel loop "
                                            "body are neither privatised nor declared inside it: "
                                            + ", ".join(f["harmful"])})
            ctx.violations.append(("%s: shared scalars %s written from per-iteration state and read in the parallel "
                                   "loop" % (f["function"], f["harmful"]), path))
            continue
        key = tuple(sorted(v for v in f["shared"] if v in ompparse.NAMES))
        seen.setdefault(key, []).append(f["function"])
    if not seen and not ctx.violations:
        seen[()] = ["(no parallel loop parsed: the design with nothing shared)"]
    for key, names in seen.items():
        for base in bases:
            cfg = write_cfg(key, base, "PDM-%s-%s" % ("_".join(key) or "none", base))
            res = tlc.tlc("ParallelDM", cfg, workers=12, timeout=3600 if ctx.quick else 14400, heap="6g")
            ctx.add_mc(res)
            if res["invariant_violated"]:
                path = core.write_replay(ctx, "model-%s" % names[0], {
                    "property": PID, "functions": names, "SharedVars": list(key), "violated": res["invariant_violated"],
                    "tlc_tail": res["stdout"][-3000:],
                    "how": "tlc ParallelDM with SharedVars derived from the pragma of these functions"})
                ctx.violations.append(("%s: TLC refutes schedule independence with SharedVars=%s (%s)"
                                       % (",".join(names), list(key), res["invariant_violated"]), path))
                break
            if not res["completed"]:
                raise tlc.TLCError("ParallelDM did not complete:\n" + res["stdout"][-2000:])
            ctx.log("Act M ParallelDM %s SharedVars=%s: %d states" % (base, list(key), res.get("distinct", 0)))
    st = tlc.expect_violation("ParallelDM", "ParallelDM_shared_c.cfg")
    ctx.extra["selftest_shared_c_refuted"] = st["invariant_violated"]


def items(ctx):
    q = ctx.quick
    rng = ctx.rng("c07")
    out = []
    nmax = 4 if q else 6
    for n in range(2, nmax + 1):
        blocks = all_blocks(n)
        if q and n == 4:
            blocks = [b for b in blocks if rng.random() < 0.5]
        for (blk, triu) in blocks:
            nd = 2 if rng.random() < 0.25 else 1
            ser = make_collection(rng, n, nd=nd, equal=rng.random() < 0.5)
            out.append({"n": n, "ser": ser, "S": 1, "set": settings_template(rng, ser), "blk": blk, "triu": triu,
                        "noblock": False, "threads": THREADS_Q if q else THREADS_T,
                        "mpseeds": [1, 2] if q else [1, 2, 3, 4]})
        for rep in range(3):
            ser = make_collection(rng, n, nd=(2 if rep == 2 else 1), equal=(rep == 0))
            out.append({"n": n, "ser": ser, "S": 1, "set": settings_template(rng, ser), "blk": [0, n, 0, n],
                        "triu": True, "noblock": True, "threads": THREADS_Q if q else THREADS_T,
                        "mpseeds": [1, 2, 3]})
    # larger collections: more rows than threads and vice versa
    for n in ((9,) if q else (9, 17, 33)):
        for rep in range(2 if q else 4):
            ser = make_collection(rng, n, nd=1, equal=(rep % 2 == 0))
            blk = [0, n, 0, n] if rep < 1 else [rng.randint(0, 2), rng.randint(n - 3, n), rng.randint(0, 3), n]
            out.append({"n": n, "ser": ser, "S": 1, "set": settings_template(rng, ser), "blk": blk, "triu": True,
                        "noblock": rep < 1, "threads": [2, 5, 64] if q else THREADS_T, "mpseeds": [1],
                        "realpools": [2] if rep == 0 else []})
    for k, it in enumerate(out):
        it["id"] = "c07-%d" % k
    return out


RULE = ("model: TLC explores all interleavings of the row-parallel loop (threads grab any remaining row; one step per "
        "assignment) for every block with the set of shared loop scalars derived from the pragma/declarations of each of "
        "the six functions in /repo's dd_dtw_openmp.c; a self-test requires TLC to refute 'c shared'. implementation: "
        "the complete block space n<=4 (quick) / n<=6 (thorough) plus larger collections, through the OpenMP extension "
        "and direct *_parallel calls with 3-7 thread counts (up to 64, more threads than rows), NaN-prefilled output "
        "buffers of exactly the advertised length between canaries, the real dtw_distances_prepare plan, and the "
        "multiprocessing branches with a pool whose tasks complete in seeded random orders (and a real Pool); and the "
        "REAL loop bodies linked against a deterministic scheduler (native/gomp_shim.c) instead of libgomp, executed "
        "under all row permutations x thread assignments for blocks of <= 3 rows and seeded schedules beyond "
        "(iteration-granular), and with scheduling points before and after every kernel call under strict "
        "round-robin / reverse round-robin / seeded thread choices (cell-granular); every "
        "output must equal the serial routine and the specification element for element; non-trivial = block given")


def shim_items(ctx):
    """Every block for n <= 4 (5): all row permutations x thread assignments for small blocks, seeded beyond."""
    q = ctx.quick
    rng = ctx.rng("c07-shim")
    out = []
    for n in range(2, (4 if q else 5) + 1):
        for (blk, triu) in all_blocks(n):
            if q and n == 4 and rng.random() > 0.4:
                continue
            nd = 2 if rng.random() < 0.2 else 1
            ser = make_collection(rng, n, nd=nd, equal=rng.random() < 0.5)
            out.append({"n": n, "ser": ser, "S": 1, "set": settings_template(rng, ser), "blk": blk, "triu": triu,
                        "noblock": False, "shim_threads": [2, 3] if q else [2, 3, 5], "shim_samples": 4 if q else 12})
    for k, it in enumerate(out):
        it["id"] = "c07s-%d" % k
    return out


def run(ctx):
    ctx.rule = RULE
    src = build.py_build()
    model(ctx)
    dm_pass(ctx, src, items(ctx), "run_c07")
    # binding 3 needs the loops to compile against the entry points the shim provides (gcc's GOMP_* calls for
    # the schedule kinds of OpenMP 4.5); if the file was restructured beyond that the binding is skipped and
    # noted -- the real-thread runs above still decide the property on samples.
    try:
        build.native_lib("shim")
        shim_ok = True
    except RuntimeError as e:
        shim_ok = False
        ctx.extra["shim"] = "unavailable: %s" % str(e)[:300]
        ctx.log("GOMP shim could not be built; binding 3 skipped")
    if shim_ok:
        its = shim_items(ctx)
        dm_pass(ctx, src, its, "run_c07_shim")
        ctx.extra["shim_schedules_executed"] = sum(it["_rec"].get("schedules", 0) for it in its)
    return core.finish(ctx)


def replay(ctx, path):
    rec = json.load(open(path))
    src = build.py_build()
    if "case" in rec:
        dm_pass(ctx, src, [rec["case"]], "run_c07")
    else:
        model(ctx)
    return core.finish(ctx)
