"""X02 (extension, not one of the listed properties) - functions derived from a best path:
warping_amount, warping_path_penalty (post-hoc penalty and step sizes) and warp."""
import json

from harness import build, core, dtwcases as dc, tlc
from harness.dtwfamily import act_m
from harness import dtwx

PID = "X02"
RULE = ("model: DTWCore (paths, optimum, matrix) as for C01/C05. implementation: seeded univariate cases up to "
        "length 7 (window, penalty, both inner distances; no psi, no thresholds) through dtw.warping_path_penalty, "
        "dtw.warping_amount and dtw.warp; TLC judges: both paths are optimal admissible paths; warping_amount = "
        "number of non-diagonal steps; total - distance = penalty_post x amount; path_stepsize = differences of the "
        "optimal cumulative costs along the path (euclidean inner distance); warp[j] = mean of the series-1 values "
        "aligned to column j of the path")


def cases(ctx):
    rng = ctx.rng("x02")
    n = 1500 if ctx.quick else 20000
    out = dc.random_cases(rng, n, 7, (0, 1, 2, 5), inners=("sq", "eu"), pens=(0, 0, 1, 2), psi_prob=0.0)
    for c in out:
        c["pp"] = rng.choice([0, 1, 2, 3])
    return dc.with_ids(out, "x02-")


def _canary(rec):
    if rec.get("amount", -1) >= 0:
        rec["amount"] += 1
        return rec
    return None


def judge(ctx, src, cs):
    ctx.log("running %d cases (run_x02)" % len(cs))
    outs = core.pool_map(src, "harness.dtwx", "run_x02", cs)
    records, by_id = [], {}
    for c, o in zip(cs, outs):
        if o.get("crashed"):
            o = {"routes": ["PROCESS-CRASH"], "p": [[-5, -5]], "amount": -5, "extra": -5, "steps": [], "wp": [[-5, -5]],
                 "warp": [], "pp": c["pp"]}
        rec = {"id": c["id"], "kind": "derived", "c": dtwx.tla_case(c)}
        rec.update({k: v for k, v in o.items() if k != "id"})
        c["_rec"] = rec
        by_id[c["id"]] = c
        records.append(rec)
        ctx.evaluations += 3
    ctx.log("Act T: TLC judges %d records" % len(records))
    res = tlc.validate_traces("DTWTrace", "DTWTrace.cfg", records, chunk=400, canary_fields=[_canary])
    ctx.add_tv(res)
    nv = 0
    known_ids = {f["id"] for f in core.load_findings(PID)[0]}
    for rid, clause in sorted(res["fails"].items()):
        c = by_id[rid]
        if "X02-penalty-path-ignores-penalty" in known_ids and c["pen"] > 0 and clause == "penalty-path:cost":
            ctx.known_hits["X02-penalty-path-ignores-penalty"] = \
                ctx.known_hits.get("X02-penalty-path-ignores-penalty", 0) + 1
            continue
        nv += 1
        path = core.write_replay(ctx, rid, {"property": PID, "case": {k: v for k, v in c.items() if k != "_rec"},
                                            "rejected_clause": clause, "record": c["_rec"]}) if nv <= 10 \
            else ctx.violations[0][1]
        ctx.violations.append(("%s rejected at %s" % (rid, clause), path))
    ctx.nontrivial = {c["id"] for c in cs if dc.is_nontrivial(c)}
    ctx.samples = [c["_rec"] for c in cs[:: max(1, len(cs) // 3)]][:3]
    return core.finish(ctx)


def run(ctx):
    ctx.rule = RULE
    src = build.py_build()
    act_m(ctx, ["MC_DTWCore_c01q2.cfg"])
    return judge(ctx, src, cases(ctx))


def replay(ctx, path):
    rec = json.load(open(path))
    return judge(ctx, build.py_build(), [rec["case"]])
