"""C04 - accumulated-cost matrix is cell-wise optimal and identical across engines and layouts."""
import json

from harness import dtwcases as dc
from harness.wpsfamily import run_records_family
from props.c02 import RECT2, ndim_cases

PID = "C04"
QUICK_MC = ["MC_DTWCore_c01q2.cfg"]
THOROUGH_MC = ["MC_DTWCore_c01q.cfg"]


def cases(ctx):
    q = ctx.quick
    sd = ctx.seed
    out = []
    out += dc.slice_values(3, (0, 1, 3), (0, 1, 2, 3), (0, 1), frac=0.25 if q else 1.0, seed=sd, salt="a")
    out += dc.slice_values(4, (0, 1, 3), (0, 1, 2, 3), (0, 1), frac=0.01 if q else 0.2, seed=sd, salt="a4")
    out += dc.slice_psi(3, (0, 2), (0, 1, 2, 3), pens=(0, 1), frac=0.03 if q else 0.6, seed=sd, salt="b")
    for inner in ("sq", "eu"):
        out += dc.slice_values(3, (0, 1, 3), (0, 1, 2), (0, 1), ms=2, inner=inner, frac=0.06 if q else 1.0,
                               seed=sd, salt="c")
        for md in (3, 9):
            out += dc.slice_values(3, (0, 1, 3), (0, 2), (0, 1), md=md, inner=inner, frac=0.05 if q else 1.0,
                                   seed=sd, salt="d%d" % md)
        out += dc.slice_psi(3, (0, 2), (0, 2), pens=(0,), pmax=2, md=5, inner=inner, frac=0.01 if q else 0.3,
                            seed=sd, salt="e")
    rng = ctx.rng("c04")
    n = 2000 if q else 40000
    # geometry-rich: longer series, all windows (compact layout regions A-D), psi
    out += dc.random_cases(rng, n, 8 if q else 10, (0, 1, 2, 5), inners=("sq", "eu"), pens=(0, 0, 1),
                           mss=(0, 0, 0, 3), mds=(0, 0, 9, 25), psi_prob=0.5)
    # thresholds ON the cost lattice (max_dist 1, 2, 3, 4: equal to attainable accumulated costs): a cell whose
    # optimum equals max_dist does not exceed it and has to hold the optimum
    out += dc.random_cases(rng, n // 2, 7, (0, 1, 2, 3), inners=("sq", "eu"), pens=(0, 0, 1), mds=(2, 4, 6, 8),
                           psi_prob=0.3)
    out += dc.random_cases(rng, n // 2, 8, (0, 1), inners=("sq",), pens=(0,), psi_prob=0.2)
    out += ndim_cases(rng, n // 4, 5, RECT2, ("sq", "eu"), pens=(0, 1), mss=(0, 0, 4), mds=(0, 0, 7), psi_prob=0.3)
    return dc.with_ids(out, "c04-")


RULE = ("cases: option slices (window x penalty x psi 4-tuples x max_step x max_dist x inner distance) plus seeded "
        "geometry-rich cases up to length 8-10 exercising all four compact-layout regions; per case the matrices of "
        "Python warping_paths (default and keep_int_repr/psi_neg=False), C warping_paths_fast (same variants, and via "
        "use_c), and a ctypes call writing the compact buffer of exactly the advertised size followed by "
        "dtw_expand_wps and two random dtw_expand_wps_slice calls; every cell judged by TLC (CellAllowed), -1 marks "
        "by MarksOK; non-trivial as in C01")


def run(ctx):
    return run_records_family(ctx, cases(ctx), "run_c04", "wps",
                              mc_cfgs=QUICK_MC if ctx.quick else QUICK_MC + THOROUGH_MC, rule=RULE)


def replay(ctx, path):
    rec = json.load(open(path))
    return run_records_family(ctx, [rec["case"]], "run_c04", "wps", rule="replay")
