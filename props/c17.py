"""C17 - Needleman-Wunsch returns the optimal score and a consistent alignment."""
import itertools
import json

from harness import build, core, tlc
from harness.dtwfamily import classify

PID = "C17"


def items(ctx):
    q = ctx.quick
    rng = ctx.rng("c17")
    out = []
    scorings = [{"kind": "default"},
                {"kind": "dict", "opt": "max", "gap": 1, "entries": [(0, 1, 1), (0, 0, 4)]},      # gap 0.5
                {"kind": "dict", "opt": "max", "gap": 4, "entries": [(0, 1, -3), (1, 1, 3)]},     # gap 2
                {"kind": "dict", "opt": "max", "gap": 3, "entries": []},                          # only the gap cost (1.5)
                {"kind": "dict", "opt": "min", "gap": 1, "entries": [(0, 1, -1), (1, 1, -4), (0, 0, -2)]},
                # free gaps (gap cost exactly 0: the falsy value of the option)
                {"kind": "dict", "opt": "max", "gap": 0, "entries": [(0, 1, -2), (0, 0, 2)]},
                # asymmetric table
                {"kind": "dict", "opt": "max", "gap": 2, "asym": True, "entries": [(0, 1, 4), (1, 0, 6), (0, 0, 2), (1, 1, 2)]}]
    A = 2
    seqs = [list(t) for n in range(0, 4) for t in itertools.product(range(A), repeat=n)]
    for a in seqs:
        for b in seqs:
            if len(a) == 0 and len(b) == 0:
                continue
            for sc in scorings:
                if q and rng.random() > 0.7:
                    continue
                out.append({"s1": a, "s2": b, "A": A, "scoring": sc, "aslist": rng.random() < 0.3})
    A = 3
    for _ in range(1000 if q else 6000):
        a = [rng.randrange(A) for _ in range(rng.randint(0, 6))]
        b = [rng.randrange(A) for _ in range(rng.randint(0, 6))]
        if not a and not b:
            continue
        sc = rng.choice(scorings)
        if sc["kind"] == "dict" and rng.random() < 0.5:
            sc = {"kind": "dict", "opt": rng.choice(["max", "min"]), "gap": rng.choice([0, 1, 2, 3, 4, 5]),
                  "entries": [(rng.randrange(A), rng.randrange(A), rng.randint(-4, 4)) for _ in range(rng.randint(0, 3))]}
            # keep one value per unordered pair
            seen = {}
            for (x, y, v) in sc["entries"]:
                seen[(min(x, y), max(x, y))] = v
            sc["entries"] = [(x, y, v) for (x, y), v in seen.items()]
            if rng.random() < 0.4:
                # asymmetric scoring: both orientations listed with different values (the documented example
                # {('A','B'): 2, ('B','A'): 3}); the score of a column is sub[symbol of s1][symbol of s2]
                ent = {}
                for (x, y, v) in sc["entries"]:
                    ent[(x, y)] = v
                    if x != y:
                        ent[(y, x)] = v + rng.choice([-2, -1, 1, 2])
                sc["entries"] = [(x, y, v) for (x, y), v in ent.items()]
                sc["asym"] = True
        out.append({"s1": a, "s2": b, "A": A, "scoring": sc, "aslist": rng.random() < 0.3,
                    "symbols": rng.choice(["char", "char", "tuple", "bigint", "word"])})
    for k, it in enumerate(out):
        it["id"] = "c17-%d" % k
    return out


RULE = ("model: the recurrence with its border equals the maximum over ALL explicitly enumerated global alignments, for "
        "all sequence pairs up to length 3 (4) over a binary alphabet x substitution tables x gap scores. implementation: "
        "all pairs of sequences of length 0..3 over 2 symbols (quick: thinned) and seeded pairs up to length 6 over 3 "
        "symbols (characters, and run-time built tuples / large integers / words that are equal but never identical) x {default scoring, dictionary scoring with gap costs 0 / 0.5 / 1 / 1.5 / 2 / 2.5, max and min "
        "orientation}; recorded: value, score matrix, and the alignment for all six traceback orders and the default; "
        "TLC judges value = optimum, the score matrix cell by cell, and each alignment (equal lengths, reduces to the "
        "inputs, no gap/gap column, scores the value); non-trivial = unequal lengths or custom scoring")


def judge(ctx, src, its):
    ctx.log("running %d alignment cases" % len(its))
    outs = core.pool_map(src, "harness.nwx", "run_c17", its, chunksize=50)
    records, by_id = [], {}
    for it, o in zip(its, outs):
        if o.get("crashed"):
            o = {"route": "PROCESS-CRASH", "value": -5, "scores": [], "aligns": [], "sub": [[0]], "gap": 0, "routes": ["x"]}
        rec = {"id": it["id"], "kind": "nw", "s1": it["s1"], "s2": it["s2"]}
        rec.update({k: v for k, v in o.items() if k != "id"})
        it["_rec"] = rec
        by_id[it["id"]] = it
        records.append(rec)
        ctx.evaluations += len(rec["routes"])
    ctx.log("Act T: TLC judges %d records (%d observations)" % (len(records), ctx.evaluations))
    res = tlc.validate_traces("NWTrace", "NWTrace.cfg", records, chunk=300, parallel=12, canary_fields=["value"])
    ctx.add_tv(res)
    classify(ctx, by_id, res["fails"])
    ctx.nontrivial = {it["id"] for it in its if len(it["s1"]) != len(it["s2"]) or it["scoring"]["kind"] != "default"}
    ctx.samples = [it["_rec"] for it in its[:: max(1, len(its) // 3)]][:3]
    return core.finish(ctx)


def run(ctx):
    ctx.rule = RULE
    src = build.py_build()
    cfg = "MC_NW_q.cfg" if ctx.quick else "MC_NW_t.cfg"
    ctx.log("Act M: %s" % cfg)
    ctx.add_mc(tlc.model_check("MC_NW", cfg, workers=12))
    return judge(ctx, src, items(ctx))


def replay(ctx, path):
    rec = json.load(open(path))
    return judge(ctx, build.py_build(), [rec["case"]])
