"""X01 (extension, not one of the listed properties) - msm.distance = Move-Split-Merge distance."""
import itertools
import json

from harness import build, core, tlc

PID = "X01"

RULE = ("model: the dynamic programme of MSM.tla satisfies the Bellman characterisation of the cheapest "
        "Move/Split/Merge transformation (no edit beats it, some edit lies on an optimal route), identity, symmetry, "
        "separation, monotonicity in the split/merge cost for all series of length <= 3 over 0..3, and the triangle "
        "inequality for all triples over 0..2. implementation: msm.distance on all pairs of series of length <= 3 "
        "(quick: thinned) over {0,1,3} plus seeded pairs up to length 6, split/merge cost 0, 0.5, 1, 2, as list / NumPy "
        "/ array.array and with the arguments swapped; every value must equal the programme's")


def items(ctx):
    q = ctx.quick
    rng = ctx.rng("x01")
    out = []
    ser = [list(t) for n in (1, 2, 3) for t in itertools.product((0, 1, 3), repeat=n)]
    for x in ser:
        for y in ser:
            if rng.random() > (0.25 if q else 1.0):
                continue
            smc, S = rng.choice([(0, 1), (1, 1), (2, 1), (1, 2)])
            out.append({"x": [v * S for v in x], "y": [v * S for v in y], "smc": smc, "S": S})
    for _ in range(300 if q else 5000):
        lx, ly = rng.randint(1, 6), rng.randint(1, 6)
        if rng.random() < 0.5:
            ly = lx
        smc, S = rng.choice([(0, 1), (1, 1), (3, 1), (1, 2), (3, 2)])
        out.append({"x": [rng.choice((0, 1, 2, 5, 9)) * S for _ in range(lx)],
                    "y": [rng.choice((0, 1, 2, 5, 9)) * S for _ in range(ly)], "smc": smc, "S": S})
    for k, it in enumerate(out):
        it["id"] = "x01-%d" % k
    return out


def known_unequal(it):
    """msm.distance iterates rows over range(1, len(y)) and columns over range(1, len(x)): IndexError (or an
    unfilled matrix) whenever the lengths differ and both are >= 2."""
    return len(it["x"]) != len(it["y"]) and min(len(it["x"]), len(it["y"])) >= 2


def _canary(rec):
    for o in rec["obs"]:
        if o["val"] >= 0:
            o["val"] += 1
            return rec
    return None


def judge(ctx, src, its):
    ctx.log("running %d MSM cases" % len(its))
    outs = core.pool_map(src, "harness.msmx", "run_x01", its, chunksize=50)
    records, by_id = [], {}
    for it, o in zip(its, outs):
        if o.get("crashed"):
            o = {"obs": [{"route": "PROCESS-CRASH", "val": -5}], "routes": ["PROCESS-CRASH"]}
        rec = {"id": it["id"], "x": it["x"], "y": it["y"], "smc": it["smc"], "obs": o["obs"]}
        it["_rec"] = rec
        by_id[it["id"]] = it
        records.append(rec)
        ctx.evaluations += len(o["obs"])
    ctx.log("Act T: TLC judges %d records (%d observations)" % (len(records), ctx.evaluations))
    res = tlc.validate_traces("MSMTrace", "MSMTrace.cfg", records, chunk=400, parallel=8, canary_fields=[_canary])
    ctx.add_tv(res)
    nv = 0
    known_ids = {f["id"] for f in core.load_findings(PID)[0]}
    for rid, clause in sorted(res["fails"].items()):
        it = by_id[rid]
        if "X01-msm-unequal-lengths" in known_ids and known_unequal(it):
            ctx.known_hits["X01-msm-unequal-lengths"] = ctx.known_hits.get("X01-msm-unequal-lengths", 0) + 1
            continue
        nv += 1
        path = core.write_replay(ctx, rid, {"property": PID, "case": {k: v for k, v in it.items() if k != "_rec"},
                                            "rejected_clause": clause, "record": it["_rec"]}) if nv <= 10 \
            else ctx.violations[0][1]
        ctx.violations.append(("%s rejected at %s" % (rid, clause), path))
    ctx.nontrivial = {it["id"] for it in its if it["x"] != it["y"]}
    ctx.samples = [it["_rec"] for it in its[:: max(1, len(its) // 3)]][:3]
    return core.finish(ctx)


def run(ctx):
    ctx.rule = RULE
    src = build.py_build()
    ctx.log("Act M: MC_MSM_q.cfg, MC_MSM_tri.cfg")
    ctx.add_mc(tlc.model_check("MC_MSM", "MC_MSM_q.cfg", workers=8))
    ctx.add_mc(tlc.model_check("MC_MSM", "MC_MSM_tri.cfg", workers=8))
    return judge(ctx, src, items(ctx))


def replay(ctx, path):
    rec = json.load(open(path))
    return judge(ctx, build.py_build(), [rec["case"]])
