"""C11 - multivariate DTW is DTW with vector point distances, in both engines."""
import copy
import json

from harness import build, core, dtwcases as dc
from harness.dtwfamily import act_m
from harness.wpsfamily import judge_pass

PID = "C11"
P1 = [(0,), (1,), (3,)]
P2 = [(0, 0), (3, 0), (0, 4), (3, 4)]
P3 = [(0, 0, 0), (3, 4, 0), (3, 4, 12), (0, 0, 12)]
P4 = [(0, 0, 0, 0), (3, 4, 0, 0), (3, 4, 12, 0), (0, 0, 12, 0), (0, 0, 0, 5), (0, 0, 12, 5)]
# P4 has non-integer Euclidean distances for some pairs: it is used with the squared inner distance only


def ndcases(rng, n, L, pts, inners, **kw):
    out = dc.random_cases(rng, n, L, None, points=pts, inners=inners, **kw)
    for c in out:
        c["use_ndim"] = True
    return out


def cases(ctx):
    q = ctx.quick
    rng = ctx.rng("c11")
    n = 1200 if q else 25000
    out = []
    for pts, inn in ((P1, ("sq", "eu")), (P2, ("sq", "eu")), (P3, ("sq", "eu")), (P4, ("sq",))):
        out += ndcases(rng, n, 5, pts, inn, pens=(0, 0, 1, 2), mss=(0, 0, 0, 4), mds=(0, 0, 0, 7, 11), psi_prob=0.4)
        pr = ndcases(rng, n // 2, 5, pts, inn, pens=(0, 0, 1), psi_prob=0.2, prune=True)
        out += [c for c in pr if c["pen"] == 0 or len(c["s1"]) == len(c["s2"])]
    # relaxed ends under a SLIDING band (see dtwcases.sliding_end_cases)
    for pts, inn in ((P2, ("sq", "eu")), (P3, ("sq", "eu"))):
        for c in dc.sliding_end_cases(rng, n // 2, pts, inn):
            c["use_ndim"] = True
            out.append(c)
    # small exhaustive slice in 2-D: all series pairs up to length 2 over the rectangle
    import itertools
    ser = [[list(p) for p in t] for k in (1, 2) for t in itertools.product(P2, repeat=k)]
    for a in ser:
        for b in ser:
            for w in (0, 1):
                for pen in (0, 1):
                    for inner in ("sq", "eu"):
                        c = dc.base_case(a, b, inner=inner, w=w, pen=pen)
                        c["use_ndim"] = True
                        out.append(c)
    return dc.with_ids(out, "c11-")


RULE = ("cases: series of d-dimensional points, d in 1..4, from point alphabets whose pairwise Euclidean distances are "
        "integers (rectangle and its embeddings), exhaustive up to length 2 in 2-D plus seeded cases up to length 5 x "
        "window x penalty x psi x max_step x max_dist x use_pruning; per case the distance through 8-12 routes (Python, "
        "C, list and 3-D array containers, distance matrices, d=1 vs the flattened univariate call, direct C call), "
        "the cost matrix (Python, C, compact+expand) and the warping path (Python, C); all judged by TLC against "
        "DTWCore with the vector point distance; non-trivial as in C01")


def run(ctx):
    ctx.rule = RULE
    src = build.py_build()
    act_m(ctx, ["MC_DTWCore_c01q2.cfg"])
    cs = cases(ctx)
    judge_pass(ctx, src, cs, "run_c11_dist", "dist")
    sub = [copy.deepcopy(c) for c in cs if not c.get("prune")][:: 2 if ctx.quick else 1]
    judge_pass(ctx, src, sub, "run_c11_wps", "wps")
    sub2 = [copy.deepcopy(c) for c in cs if not c.get("prune") and c["md"] == 0][:: 2 if ctx.quick else 1]
    judge_pass(ctx, src, sub2, "run_c11_path", "path")
    return core.finish(ctx)


def replay(ctx, path):
    rec = json.load(open(path))
    src = build.py_build()
    kind = (rec.get("record") or {}).get("kind", "dist")
    worker = {"dist": "run_c11_dist", "wps": "run_c11_wps", "path": "run_c11_path"}[kind]
    judge_pass(ctx, src, [rec["case"]], worker, kind)
    return core.finish(ctx)
