"""C14 - k-NN subsequence search is exact despite lower bounds and early abandoning."""
import json

from harness import build, core, tlc
from harness.dtwfamily import classify

PID = "C14"
P2 = [(0, 0), (3, 0), (0, 4), (3, 4)]


def items(ctx):
    q = ctx.quick
    rng = ctx.rng("c14")
    out = []
    for _ in range(2000 if q else 15000):
        nd = rng.choice([1, 1, 1, 1, 2])
        lq = rng.randint(1, 4)
        vals = rng.choice([(0, 1, 3), (0, 1, 2, 5), (-3, -1, 0, 2)])

        def ser(n):
            return [[rng.choice(vals)] if nd == 1 else list(rng.choice(P2)) for _ in range(n)]
        qs = ser(lq)
        N = rng.randint(1, 6)
        cands = []
        for _ in range(N):
            if cands and rng.random() < 0.25:
                cands.append([list(p) for p in rng.choice(cands)])      # duplicates => ties
            else:
                cands.append(ser(lq if rng.random() < 0.6 else rng.randint(1, 4)))
        minlen = min([lq] + [len(x) for x in cands])
        psi = [0, 0, 0, 0]
        if minlen > 1 and rng.random() < 0.2:
            p = 1
            psi = [p, p, p, p]
        # thresholds: none, between attainable distances (odd half-units), and EXACTLY an attainable distance
        # (even half-units = integer max_dist: ties between threshold, distance and lower bound)
        st = {"s1": [[0]], "s2": [[0]], "inner": rng.choice(["sq", "sq", "eu"]), "w": rng.choice([0, 0, 1, 2, 3]),
              "pen": rng.choice([0, 0, 1]), "ms": 0, "md": rng.choice([0, 0, 3, 5, 9, 15, 2, 4, 6, 8]), "mld": -1,
              "psi": psi}
        hist = []
        for _ in range(rng.randint(1, 4)):
            op = rng.choice(["kbest", "kbest", "kbest", "best", "align", "kbest_fast", "reset"])
            k = rng.choice([-1, 1, 1, 2, 3, N, N + 1])
            hist.append((op, k))
        variants = [{"use_lb": ul, "use_c": uc, "as_value": rng.random() < 0.3,
                     "both": rng.choice([None, None, "value_smaller", "dist_smaller"])}
                    for ul in (False, True) for uc in (False, True)]
        out.append({"q": qs, "cands": cands, "S": 1, "set": st, "history": hist, "variants": variants})
    # lower bound under stress: queries SHORTER than the candidates, narrow windows, a wider alphabet and k = 1-2,
    # so that an unsound bound (envelope too narrow on one side) prunes a true nearest neighbour
    for _ in range(1000 if q else 8000):
        lq = rng.randint(2, 4)
        vals = (0, 1, 2, 3, 4, 5)
        qs = [[rng.choice(vals)] for _ in range(lq)]
        N = rng.randint(3, 6)
        cands = [[[rng.choice(vals)] for _ in range(lq + rng.choice([0, 1, 1, 2]))] for _ in range(N)]
        st = {"s1": [[0]], "s2": [[0]], "inner": rng.choice(["sq", "eu"]), "w": rng.choice([1, 1, 2]),
              "pen": 0, "ms": 0, "md": rng.choice([0, 0, 2, 3, 4, 6]), "mld": -1, "psi": [0, 0, 0, 0]}
        hist = [("kbest", rng.choice([1, 1, 2, -1]))]
        variants = [{"use_lb": True, "use_c": uc, "as_value": False} for uc in (False, True)]
        # half of the group in half units (values 0, 0.5, ... 2.5): lower bounds below 1, where a bound that is
        # transformed once too often (a stray sqrt) is no longer a lower bound
        out.append({"q": qs, "cands": cands, "S": rng.choice([1, 2]), "set": st, "history": hist, "variants": variants})
    # ... and the mirror image: queries LONGER than the candidates with wide or no windows (the envelope limits
    # on the other side of the length difference)
    for _ in range(1000 if q else 8000):
        lq = rng.randint(4, 7)
        vals = (0, 1, 2, 3, 4, 5)
        qs = [[rng.choice(vals)] for _ in range(lq)]
        N = rng.randint(4, 8)
        cands = [[[rng.choice(vals)] for _ in range(max(1, lq - rng.choice([1, 1, 2, 2, 3])))] for _ in range(N)]
        st = {"s1": [[0]], "s2": [[0]], "inner": rng.choice(["sq", "eu"]), "w": rng.choice([0, 0, 0, 3, 4, 5]),
              "pen": 0, "ms": 0, "md": rng.choice([0, 0, 2, 3, 4, 6]), "mld": -1, "psi": [0, 0, 0, 0]}
        hist = [("kbest", rng.choice([1, 1, 2, -1]))]
        variants = [{"use_lb": True, "use_c": uc, "as_value": False} for uc in (False, True)]
        out.append({"q": qs, "cands": cands, "S": rng.choice([1, 2]), "set": st, "history": hist, "variants": variants})
    for k, it in enumerate(out):
        it["id"] = "c14-%d" % k
    return out


RULE = ("model: the heap/threshold/cache state machine checked against TopK for ALL abstract distance and lower-bound "
        "vectors (n <= 3/4, values with ties and infinities), k in {1,2,5}, max_dist given or not, use_lb, and all "
        "call histories up to 3 calls; self-test refutes the design that does not cut a cached answer at k. "
        "implementation: seeded queries and 1-6 candidates (duplicates/ties, unequal lengths, ndim 1-2) x window x "
        "penalty x psi x max_dist/max_value x {use_lb} x {use_c}; histories of 1-4 calls of kbest_matches(k) / "
        "best_match / align(k) / kbest_matches_fast(k) / reset with k in {None,1,2,3,N,N+1} on ONE object; after each "
        "call the returned (distance, idx) list is judged by TLC against TopK of the distances the specification "
        "computes (indices up to ties); non-trivial = more than one candidate and (max_dist or use_lb or history > 1)")


def _canary(rec):
    for c in rec["calls"]:
        if c["ans"] and c["ans"][0][0] >= 0 and not c["raised"]:
            c["ans"][0][0] += 1
            return rec
    return None


def judge(ctx, src, its):
    ctx.log("running %d search histories" % len(its))
    outs = core.pool_map(src, "harness.ssx", "run_c14", its, chunksize=20)
    records, by_id = [], {}
    for it, o in zip(its, outs):
        if o.get("crashed"):
            o = {"calls": [{"route": "PROCESS-CRASH", "k": 1, "ans": [[-5, 0]], "raised": False}], "routes": ["PROCESS-CRASH"]}
        rec = {"id": it["id"], "kind": "ss", "set": it["set"], "q": it["q"], "cands": it["cands"]}
        rec.update({k: v for k, v in o.items() if k != "id"})
        it["_rec"] = rec
        by_id[it["id"]] = it
        records.append(rec)
        ctx.evaluations += len(rec["routes"])
    ctx.log("Act T: TLC judges %d records (%d calls)" % (len(records), ctx.evaluations))
    res = tlc.validate_traces("SSTrace", "SSTrace.cfg", records, chunk=100, parallel=14, canary_fields=[_canary])
    ctx.add_tv(res)
    classify(ctx, by_id, res["fails"])
    ctx.nontrivial = {it["id"] for it in its if len(it["cands"]) > 1}
    ctx.samples = [it["_rec"] for it in its[:: max(1, len(its) // 3)]][:3]
    return core.finish(ctx)


def run(ctx):
    ctx.rule = RULE
    src = build.py_build()
    cfg = "MC_SubseqSearch_q.cfg" if ctx.quick else "MC_SubseqSearch_t.cfg"
    ctx.log("Act M: %s" % cfg)
    ctx.add_mc(tlc.model_check("MC_SubseqSearch", cfg, workers=12))
    st = tlc.expect_violation("MC_SubseqSearch", "MC_SubseqSearch_nocut.cfg", "AnswersExact")
    ctx.extra["selftest_uncut_cache_refuted"] = st["invariant_violated"]
    return judge(ctx, src, items(ctx))


def replay(ctx, path):
    rec = json.load(open(path))
    return judge(ctx, build.py_build(), [rec["case"]])
