"""C08 - the C engine stays within its buffers and executes no undefined behaviour."""
import itertools
import json
import re

from harness import asanrun, build, core, findings, tlc

PID = "C08"


def pts(rng, n, nd, vals=(0, 1, 2, 3)):
    return [[rng.choice(vals) for _ in range(nd)] for _ in range(n)]


def items(ctx):
    q = ctx.quick
    rng = ctx.rng("c08")
    out = []
    Lmax = 7 if q else 9
    for l1 in range(1, Lmax + 1):
        for l2 in range(1, Lmax + 1):
            psis = list(itertools.product(range(l1 + 1), range(l1 + 1), range(l2 + 1), range(l2 + 1)))
            for w in range(0, max(l1, l2) + 2):
                # all psi 4-tuples (degenerate ones included: memory safety must hold there too), thinned
                keep = 1.0 if (l1 * l2 <= 4) else ((0.2 if q else 0.5) if l1 * l2 <= 25 else (0.06 if q else 0.2))
                for psi in psis:
                    if psi != (0, 0, 0, 0) and rng.random() > keep:
                        continue
                    nd = rng.choice([1, 1, 2, 3])
                    out.append({"kind": "pair", "s1": pts(rng, l1, nd), "s2": pts(rng, l2, nd), "w": w,
                                "psi": list(psi), "pen": rng.choice([0, 0, 1.0]), "ms": rng.choice([0, 0, 1.5]),
                                "md": rng.choice([0, 0, 1.5, 3.0]), "prune": rng.random() < 0.2,
                                "inner": rng.choice([0, 1])})
                for rep in range(2):
                    nd = rng.choice([1, 2])
                    rb = rng.randint(0, l1)
                    cb = rng.randint(0, l2)
                    sl = [0, l1 + 1, 0, l2 + 1] if rep == 0 else [rb, rng.randint(rb + 1, l1 + 1), cb,
                                                                  rng.randint(cb + 1, l2 + 1)]
                    out.append({"kind": "slice", "s1": pts(rng, l1, nd), "s2": pts(rng, l2, nd), "w": w,
                                "psi": [0, 0, 0, 0], "pen": 0, "ms": 0, "md": 0, "prune": False, "inner": 0,
                                "slice": sl})
                for triu in (0, 1):
                    nd = rng.choice([1, 2])
                    p = rng.choice([0, 1])
                    p = min(p, l1, l2)
                    out.append({"kind": "affinity", "s1": pts(rng, l1, nd), "s2": pts(rng, l2, nd), "w": w,
                                "psi": [p, p, p, p], "pen": rng.choice([0, 0.25]), "ms": 0, "md": 0, "prune": False,
                                "inner": 0, "triu": triu})
    # distance matrices: every block for n <= 4 (5), DBA with all masks for small collections
    for n in range(1, (4 if q else 5) + 1):
        for rb in range(n):
            for re_ in range(rb + 1, n + 1):
                for cb in range(n):
                    for ce in range(cb + 1, n + 1):
                        for triu in (0, 1):
                            nd = rng.choice([1, 1, 2])
                            equal = rng.random() < 0.5
                            L = rng.randint(1, 3)
                            sers = [pts(rng, L if equal else rng.randint(1, 3), nd) for _ in range(n)]
                            out.append({"kind": "matrix", "s1": sers[0], "s2": sers[0], "series": sers,
                                        "blk": [rb, re_, cb, ce], "triu": triu, "w": rng.choice([0, 1, 2]),
                                        "psi": [0, 0, 0, 0], "pen": 0, "ms": 0, "md": 0, "prune": False,
                                        "inner": rng.choice([0, 1])})
        out.append({"kind": "matrix", "s1": [[0]], "s2": [[0]], "series": [pts(rng, 2, 1) for _ in range(n)],
                    "blk": [0, 0, 0, 0], "triu": 1, "w": 0, "psi": [0, 0, 0, 0], "pen": 0, "ms": 0, "md": 0,
                    "prune": False, "inner": 0})
    for n in (1, 2, 3, 9, 10, 17):
        for rep in range(12 if q else 40):
            nd = rng.choice([1, 1, 2, 3])
            equal = rng.random() < 0.5
            L = rng.randint(1, 4)
            sers = [pts(rng, L if equal else rng.randint(1, 4), nd) for _ in range(n)]
            t = rng.randint(1, 5)
            nbytes = (n + 7) // 8
            mask = [rng.randint(0, 255) for _ in range(nbytes)]
            if not any(mask):
                mask[0] = 1
            out.append({"kind": "dba", "s1": sers[0], "s2": sers[0], "series": sers, "t": t, "avg": pts(rng, t, nd),
                        "mask": mask, "w": rng.choice([0, 0, 1, 2]), "psi": [0, 0, 0, 0], "pen": rng.choice([0, 1.0]),
                        "ms": 0, "md": 0, "prune": False, "inner": 0})
    # DBA with averages LONGER than the series and narrow windows (the scratch matrix is (t+1) x width)
    for rep in range(150 if q else 1500):
        nd = rng.choice([1, 1, 2])
        n = rng.choice([2, 3, 4])
        L = rng.randint(2, 6)
        equal = rng.random() < 0.7
        sers = [pts(rng, L if equal else rng.randint(1, 6), nd) for _ in range(n)]
        t = rng.randint(1, 9)
        mask = [rng.randint(1, 255)]
        out.append({"kind": "dba", "s1": sers[0], "s2": sers[0], "series": sers, "t": t, "avg": pts(rng, t, nd),
                    "mask": mask, "w": rng.choice([1, 1, 2, 3]), "psi": [0, 0, 0, 0], "pen": rng.choice([0, 1.0]),
                    "ms": 0, "md": 0, "prune": False, "inner": 0})
    for k, it in enumerate(out):
        it["id"] = "c08-%d" % k
    return out


RULE = ("cases: all (l1,l2) <= 7x7 (quick) / 9x9 (thorough), window 0..max+1, psi 4-tuples up to the series lengths "
        "(all for tiny sizes, thinned otherwise; degenerate ones included), penalty/max_step/max_dist on/off, pruning, "
        "ndim 1-3, both inner distances; every block for n <= 4/5 through the serial and OpenMP distance-matrix routines "
        "(ptrs and matrix layouts); DBA with random masks incl. the byte boundaries (9-10 and 17 series); affinity matrices with "
        "best_path_affinity / wps_max / negativize. Every call runs in a process with gcc ASan+UBSan "
        "(-fno-sanitize-recover) on a library compiled from /repo's C sources, caller buffers malloc'ed at exactly the "
        "documented sizes (distance rolling buffer internal; compact wps = dtw_settings_wps_length; full = (l1+1)(l2+1); "
        "path arrays l1+l2; output = dtw_distances_length). non-trivial = psi or window or block or mask active")


def run(ctx):
    ctx.rule = RULE
    its = items(ctx)
    ctx.log("Act M (size contract): Compact layout model")
    ctx.add_mc(tlc.model_check("MC_Compact", "MC_Compact_q.cfg" if ctx.quick else "MC_Compact_t.cfg", workers=8))
    # the same size contract for ALL lengths and windows: tlapm discharges LayoutProofs.tla (Layout.tla is checked
    # against Compact.tla by the invariant LayoutAgrees above); noted, not required, when tlapm is unavailable
    from harness import tlaps
    ctx.extra["unbounded_proofs"] = tlaps.layout_proofs()
    ctx.log("tlapm LayoutProofs.tla: %s" % ctx.extra["unbounded_proofs"])
    ctx.log("running %d configurations under ASan+UBSan" % len(its))
    calls, fails = asanrun.run(its)
    ctx.evaluations = calls
    known, _ = core.load_findings(PID)
    nt = set()
    for it in its:
        if any(it["psi"]) or it["w"] or it["kind"] != "pair":
            nt.add(it["id"])
    ctx.nontrivial = nt
    ctx.samples = its[:: max(1, len(its) // 5)][:5]
    for it, report in fails:
        m = re.search(r"(ERROR: AddressSanitizer[^\n]*|runtime error:[^\n]*|Assertion[^\n]*)", report)
        what = m.group(1) if m else report[-200:]
        fn = re.findall(r"#\d+ 0x[0-9a-f]+ in (\w+) ", report)
        site = next((f for f in fn if f.startswith(("dtw_", "lb_", "ub_", "euclid"))), "?")
        hit = None
        for f in known:
            if findings.matches(f, it, site + " " + what):
                hit = f
                break
        if hit:
            ctx.known_hits[hit["id"]] = ctx.known_hits.get(hit["id"], 0) + 1
            continue
        path = core.write_replay(ctx, it["id"], {"property": PID, "case": it, "site": site, "report": report,
                                                 "how": "./check C08 --replay <this file>"})
        ctx.violations.append(("%s in %s: %s" % (it["id"], site, what[:120]), path))
    for f in known:
        ctx.known_hits.setdefault(f["id"], 0)
    return core.finish(ctx, level="exploration")


def replay(ctx, path):
    rec = json.load(open(path))
    calls, fails = asanrun.run([rec["case"]], parallel=1)
    ctx.evaluations = calls
    ctx.nontrivial = {rec["case"]["id"], "x"}
    ctx.samples = [rec["case"]]
    for it, report in fails:
        p = core.write_replay(ctx, it["id"] + "-replay", {"case": it, "report": report})
        ctx.violations.append((it["id"], p))
    return core.finish(ctx, level="exploration")
