"""C18 - affinity (local-concurrence) matrix follows its recurrence in both engines."""
import copy
import itertools
import json

from harness import build, core, tlc
from harness.affx import SC
from harness.dtwfamily import classify

PID = "C18"


def items(ctx):
    q = ctx.quick
    rng = ctx.rng("c18")
    out = []

    def add(s1, s2, selfcmp=False):
        c = {"s1": [[v] for v in s1], "s2": [[v] for v in s2], "w": rng.choice([0, 0, 1, 2, 3]),
             "pen": rng.choice([0, 0, SC // 4, SC]), "pen_none": rng.random() < 0.5,
             # tau between two attainable affinities: 0.3 (between 1/2 and 1/16), 0.75 (between 1 and 1/2), 0 (off)
             # ... and tau EXACTLY an attainable affinity (1, 1/2, 1/16): "below tau" is strict
             "tau2": rng.choice([1, 78643, 196609, 2 * SC, SC, SC // 8]), "delta": -SC * rng.choice([0, 1, 2]),
             "dfnum": 1, "dfden": rng.choice([1, 2]), "triu": rng.random() < 0.3,
             # psi relaxation at the begin of either series (asymmetric too): zero instead of -inf on that border
             "psi": rng.choice([[0, 0, 0, 0]] * 3 + [[1, 0, 0, 0], [0, 0, 1, 0], [2, 0, 1, 0], [1, 0, 2, 0], [1, 0, 1, 0]])}
        c["psi"] = [min(c["psi"][0], len(s1)), 0, min(c["psi"][2], len(s2)), 0]     # psi never exceeds the series
        variants = [{"use_c": False}, {"use_c": True, "compact": False}, {"use_c": True, "compact": True}]
        calls = []
        for _ in range(rng.randint(1, 3)):
            calls.append((rng.choice([1, 2, 3, None]), rng.choice([1, 2, 2, 3]), rng.choice([0, 0, -1]),
                          rng.random() < 0.5))
        it = {"c": c, "variants": variants, "calls": calls}
        out.append(it)
        if len(s1) == len(s2) and rng.random() < 0.3:
            it2 = copy.deepcopy(it)
            it2["c"]["s2"] = it2["c"]["s1"]
            it2["c"]["triu"] = True
            for v in it2["variants"]:
                v["self"] = True
            out.append(it2)
    vals = (0, 1, 3)
    for l1 in (1, 2, 3):
        for l2 in (1, 2, 3):
            for a in itertools.product(vals, repeat=l1):
                for b in itertools.product(vals, repeat=l2):
                    if rng.random() < (0.5 if q else 1.0):
                        add(a, b)
    for _ in range(700 if q else 5000):
        l1, l2 = rng.randint(1, 5), rng.randint(1, 4)
        base = rng.choice([0, 1])
        add([base + rng.choice((0, 1, 2, 3)) for _ in range(l1)], [base + rng.choice((0, 1, 2, 3)) for _ in range(l2)])
    for k, it in enumerate(out):
        it["id"] = "c18-%d" % k
    return out


RULE = ("exact regime gamma = ln 2 (affinity 2^-d^2, |d| <= 3), scale 2^17; cases: all series pairs up to 3x3 over {0,1,3} "
        "(quick: thinned) and seeded pairs up to 5x4 (and self-comparison) x window x penalty (none / 0 / 1/4 / 1) x tau "
        "(0, 0.3, 0.75: between attainable affinities; 1, 1/2, 1/16: exactly attainable ones) x delta (0,-1,-2) x delta_factor (1, 1/2) x only_triu x psi relaxation at the begin of either series (0-2, asymmetric too; matrix routes); recorded: the "
        "matrix of warping_paths_affinity (Python), via use_c, warping_paths_affinity_fast, and compact + full-range "
        "expansion; and local_concurrences histories of 1-3 kbest_matches calls (k, minlen, buffer, restart/keep) for "
        "Python / C / C-compact; TLC judges every cell against the recurrence and every history by HistoryOK "
        "(contiguous monotone paths through cells positive in the pristine matrix, no reuse since the last restart); "
        "non-trivial = window or tau or penalty active")


def judge(ctx, src, its):
    ctx.log("running %d affinity cases" % len(its))
    outs = core.pool_map(src, "harness.affx", "run_c18", its, chunksize=20)
    records, by_id = [], {}
    for it, o in zip(its, outs):
        if o.get("crashed"):
            o = {"mats": [{"route": "PROCESS-CRASH", "mat": [[-5]]}], "hists": [], "routes": ["PROCESS-CRASH"]}
        c = {k: v for k, v in it["c"].items() if k != "pen_none"}
        rec = {"id": it["id"], "kind": "aff", "c": c}
        rec.update({k: v for k, v in o.items() if k != "id"})
        it["_rec"] = rec
        by_id[it["id"]] = it
        records.append(rec)
        ctx.evaluations += len(rec["routes"])
    ctx.log("Act T: TLC judges %d records (%d observations)" % (len(records), ctx.evaluations))
    res = tlc.validate_traces("AffTrace", "AffTrace.cfg", records, chunk=100, parallel=14, canary_fields=["mats"])
    ctx.add_tv(res)
    classify(ctx, by_id, res["fails"])
    ctx.nontrivial = {it["id"] for it in its if it["c"]["w"] or it["c"]["tau2"] > 1 or it["c"]["pen"]}
    ctx.samples = [it["_rec"] for it in its[:: max(1, len(its) // 3)]][:3]
    return core.finish(ctx)


def run(ctx):
    ctx.rule = RULE
    src = build.py_build()
    ctx.log("Act M: MC_Affinity_q.cfg")
    ctx.add_mc(tlc.model_check("MC_Affinity", "MC_Affinity_q.cfg", workers=12))
    return judge(ctx, src, items(ctx))


def replay(ctx, path):
    rec = json.load(open(path))
    return judge(ctx, build.py_build(), [rec["case"]])
