"""C03 - early abandoning (max_dist, use_pruning) never changes a result."""
import json

from harness import dtwcases as dc
from harness.dtwfamily import run_dist_family
from props.c02 import RECT2, RECT3, ndim_cases

PID = "C03"
QUICK_MC = ["DTWAlgo_c03q.cfg"]
THOROUGH_MC = ["DTWAlgo_c03t.cfg"]


def ub_valid(c):
    return c["ms"] == 0 and (c["pen"] == 0 or len(c["s1"]) == len(c["s2"]))


def cases(ctx):
    q = ctx.quick
    sd = ctx.seed
    out = []
    # thresholds spread over the attainable range (odd half-units => never equal to a cost)
    for inner, mds in (("sq", (1, 3, 5, 9)), ("eu", (1, 3, 7, 13))):
        for md in mds:
            out += dc.slice_values(3, (0, 1, 3), (0, 1, 2), (0, 1), md=md, inner=inner, frac=0.12 if q else 1.0,
                                   seed=sd, salt="a%d" % md)
            out += dc.slice_psi(3, (0, 2), (0, 2), pens=(0, 1), pmax=2, md=md, inner=inner,
                                frac=0.012 if q else 0.3, seed=sd, salt="b%d" % md)
            out += dc.slice_values(3, (0, 1, 3), (0, 2), (0,), md=md, ms=2, inner=inner, frac=0.06 if q else 1.0,
                                   seed=sd, salt="c%d" % md)
        # pruning where the Euclidean distance is a valid upper bound; many of these have DTW = ED
        pr = dc.slice_values(3, (0, 1, 3), (0, 1, 2, 3), (0, 1), inner=inner, prune=True, frac=0.5 if q else 1.0,
                             seed=sd, salt="p")
        pr += dc.slice_values(4, (0, 1, 3), (0, 1, 2), (0,), inner=inner, prune=True, frac=0.04 if q else 0.6,
                              seed=sd, salt="p4")
        pr += dc.slice_psi(3, (0, 2), (0, 2), pens=(0,), pmax=2, inner=inner, prune=True,
                           frac=0.03 if q else 0.5, seed=sd, salt="pp")
        pr += dc.slice_values(3, (0, 1, 3), (0, 2), (0, 1), inner=inner, S=2, prune=True, frac=0.2 if q else 1.0,
                              seed=sd, salt="ps")
        out += [c for c in pr if ub_valid(c)]
    rng = ctx.rng("c03")
    n = 2500 if q else 50000
    out += dc.random_cases(rng, n, 7 if q else 9, (0, 1, 2, 3, 5), inners=("sq", "eu"), pens=(0, 0, 1, 2),
                           mss=(0, 0, 0, 3), mds=(3, 5, 9, 15, 25), psi_prob=0.5)
    pr = dc.random_cases(rng, n, 7 if q else 9, (0, 1, 2, 3, 5), inners=("sq", "eu"), pens=(0, 0, 1),
                         psi_prob=0.4, prune=True)
    pr += dc.random_cases(rng, n // 2, 6, (-3, -1, 0, 2), S=2, inners=("sq", "eu"), pens=(0,), psi_prob=0.3,
                          prune=True)
    pr += ndim_cases(rng, n // 3, 5, RECT2, ("sq", "eu"), pens=(0,), psi_prob=0.3, prune=True)
    pr += ndim_cases(rng, n // 5, 4, RECT3, ("sq", "eu"), pens=(0,), psi_prob=0.2, prune=True)
    # an explicit max_dist together with use_pruning: the threshold clause holds there too
    pr += dc.random_cases(rng, n // 3, 7, (0, 1, 2, 3, 5), inners=("sq", "eu"), pens=(0, 0, 1), mds=(3, 5, 9, 15),
                          psi_prob=0.3, prune=True)
    out += [c for c in pr if ub_valid(c)]
    out += ndim_cases(rng, n // 3, 5, RECT2, ("sq", "eu"), pens=(0, 1), mds=(5, 7, 11), psi_prob=0.3)
    return dc.with_ids(out, "c03-")


def run(ctx):
    from harness import tlc
    # sensitivity self-test of the model: the psi-unaware pruning design must be refuted
    res = tlc.expect_violation("DTWAlgo", "DTWAlgo_c03_unsound.cfg")
    ctx.extra["selftest_unsound_design_refuted"] = res["invariant_violated"]
    return run_dist_family(ctx, cases(ctx), worker="run_c03", mc_module="DTWAlgo",
                           mc_cfgs=QUICK_MC if ctx.quick else QUICK_MC + THOROUGH_MC,
                           rule="cases: option slices x max_dist thresholds at half-integers of the cost lattice spread over the "
                                "attainable range, and use_pruning wherever the Euclidean distance is a valid upper bound "
                                "(families with DTW = ED included); 6-8 routes per case (distance, distance_fast, "
                                "warping_paths(_fast, compact), distance_matrix(_fast), direct C call; ndim 2-3); "
                                "non-trivial as in C01 (threshold/pruning always active)")


def replay(ctx, path):
    rec = json.load(open(path))
    return run_dist_family(ctx, [rec["case"]], worker="run_c03", mc_cfgs=[], rule="replay")
