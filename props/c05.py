"""C05 - every reported best path is a valid warping path that achieves the distance."""
import json

from harness import dtwcases as dc
from harness.wpsfamily import run_records_family
from props.c02 import RECT2, ndim_cases

PID = "C05"
QUICK_MC = ["MC_DTWCore_c01q2.cfg"]
THOROUGH_MC = ["MC_DTWCore_c01q.cfg"]


def cases(ctx):
    q = ctx.quick
    sd = ctx.seed
    out = []
    out += dc.slice_values(3, (0, 1, 3), (0, 1, 2, 3), (0, 1, 2), frac=0.25 if q else 1.0, seed=sd, salt="a")
    out += dc.slice_values(4, (0, 1, 3), (0, 1, 2, 3), (0, 1), frac=0.01 if q else 0.2, seed=sd, salt="a4")
    out += dc.slice_psi(3, (0, 2), (0, 1, 2, 3), pens=(0, 1), frac=0.03 if q else 0.6, seed=sd, salt="b")
    out += dc.slice_values(3, (0, 1, 3), (0, 2), (0, 1), inner="eu", frac=0.15 if q else 1.0, seed=sd, salt="c")
    out += dc.slice_values(3, (0, 1, 3), (0, 2), (0, 1), S=2, frac=0.15 if q else 1.0, seed=sd, salt="d")
    rng = ctx.rng("c05")
    n = 2500 if q else 50000
    out += dc.random_cases(rng, n, 8 if q else 10, (0, 1, 2, 5), inners=("sq", "eu"), pens=(0, 0, 1, 2),
                           psi_prob=0.5)
    out += dc.random_cases(rng, n // 2, 8, (0, 1), inners=("sq",), pens=(0, 1), psi_prob=0.2)
    out += ndim_cases(rng, n // 4, 5, RECT2, ("sq", "eu"), pens=(0, 1), psi_prob=0.3)
    return dc.with_ids(out, "c05-")


RULE = ("cases: window x penalty x psi x inner distance x ndim slices plus seeded cases up to length 8-10; per case the "
        "paths of best_path on Python and C matrices (default and internal representation with penalty), best_path2, "
        "warping_path, warping_path_fast, best_path_compact, dtw_ndim.warping_path, warp, and a ctypes call of "
        "dtw_warping_path_ndim with index arrays of exactly l1+l2; TLC judges each path (range, steps, band, "
        "max_step, psi-relaxed start/end, cost = optimum) and the reported distance; non-trivial as in C01")


def run(ctx):
    return run_records_family(ctx, cases(ctx), "run_c05", "path",
                              mc_cfgs=QUICK_MC if ctx.quick else QUICK_MC + THOROUGH_MC, rule=RULE)


def replay(ctx, path):
    rec = json.load(open(path))
    return run_records_family(ctx, [rec["case"]], "run_c05", "path", rule="replay")
