"""C05 - every reported best path is a valid warping path that achieves the distance."""
import json

from harness import dtwcases as dc
from harness.wpsfamily import run_records_family
from props.c02 import RECT2, ndim_cases

PID = "C05"
QUICK_MC = ["MC_DTWCore_c01q2.cfg"]
THOROUGH_MC = ["MC_DTWCore_c01q.cfg"]


def cases(ctx):
    q = ctx.quick
    sd = ctx.seed
    out = []
    out += dc.slice_values(3, (0, 1, 3), (0, 1, 2, 3), (0, 1, 2), frac=0.25 if q else 1.0, seed=sd, salt="a")
    out += dc.slice_values(4, (0, 1, 3), (0, 1, 2, 3), (0, 1), frac=0.01 if q else 0.2, seed=sd, salt="a4")
    out += dc.slice_psi(3, (0, 2), (0, 1, 2, 3), pens=(0, 1), frac=0.03 if q else 0.6, seed=sd, salt="b")
    out += dc.slice_values(3, (0, 1, 3), (0, 2), (0, 1), inner="eu", frac=0.15 if q else 1.0, seed=sd, salt="c")
    out += dc.slice_values(3, (0, 1, 3), (0, 2), (0, 1), S=2, frac=0.15 if q else 1.0, seed=sd, salt="d")
    rng = ctx.rng("c05")
    n = 2500 if q else 50000
    out += dc.random_cases(rng, n, 8 if q else 10, (0, 1, 2, 5), inners=("sq", "eu"), pens=(0, 0, 1, 2),
                           psi_prob=0.5)
    out += dc.random_cases(rng, n // 2, 8, (0, 1), inners=("sq",), pens=(0, 1), psi_prob=0.2)
    # max_step: the path has to avoid the excluded cells
    out += dc.random_cases(rng, n // 2, 7, (0, 1, 2, 5), inners=("sq", "eu"), pens=(0, 0, 1), mss=(2, 3, 4), psi_prob=0.2)
    out += ndim_cases(rng, n // 4, 5, RECT2, ("sq", "eu"), pens=(0, 1), psi_prob=0.3)
    # narrow windows on longer series: the shifted rows of the compact layout (regions C and D) are walked by the
    # C back-tracking only when 2*(window + max(0, l1-l2)) < l1 + 1
    for _ in range(4 * n):
        l1 = rng.randint(4, 9)
        l2 = rng.randint(max(2, l1 - 2), min(10, l1 + 3))
        w = rng.choice([1, 2, 2, 3])
        vals = rng.choice([(0, 1), (0, 1, 2), (0, 1, 3, 5)])
        a = [[rng.choice(vals)] for _ in range(l1)]
        b = [[rng.choice(vals)] for _ in range(l2)]
        out.append(dc.base_case(a, b, inner=rng.choice(["sq", "sq", "eu"]), w=w, pen=rng.choice([0, 0, 0, 1])))
    return dc.with_ids(out, "c05-")


RULE = ("cases: window x penalty x psi x inner distance x ndim slices plus seeded cases up to length 8-10; per case the "
        "paths of best_path on Python and C matrices (default and internal representation with penalty), best_path2, "
        "warping_path, warping_path_fast, best_path_compact, dtw_ndim.warping_path, warp, and a ctypes call of "
        "dtw_warping_path_ndim with index arrays of exactly l1+l2; and paths traced from custom start cells "
        "(dtw.best_path(row, col) and C dtw_best_path_customstart on the compact matrix) which must be optimal "
        "partial paths ending in that cell; TLC judges each path (range, steps, band, "
        "max_step, psi-relaxed start/end, cost = optimum) and the reported distance; non-trivial as in C01")


def run(ctx):
    import copy
    from harness import build, core
    from harness.dtwfamily import act_m
    from harness.wpsfamily import judge_pass
    ctx.rule = RULE
    src = build.py_build()
    act_m(ctx, QUICK_MC if ctx.quick else QUICK_MC + THOROUGH_MC)
    cs = cases(ctx)
    judge_pass(ctx, src, cs, "run_c05", "path")
    # custom start cells: no psi at the end (the start cell is given), otherwise the same case space
    sub = [copy.deepcopy(c) for c in cs if c["psi"][1] == 0 and c["psi"][3] == 0 and c["md"] == 0 and c["ms"] == 0]
    sub = sub[:: 2 if ctx.quick else 1]
    judge_pass(ctx, src, sub, "run_c05_custom", "pathto")
    return core.finish(ctx)


def replay(ctx, path):
    rec = json.load(open(path))
    return run_records_family(ctx, [rec["case"]], "run_c05", "path", rule="replay")
