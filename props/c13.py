"""C13 - subsequence-alignment matching function = best DTW over all start points."""
import itertools
import json

from harness import build, core, tlc
from harness.dtwfamily import classify

PID = "C13"
P2 = [(0, 0), (3, 0), (0, 4), (3, 4)]


def items(ctx):
    q = ctx.quick
    rng = ctx.rng("c13")
    out = []

    def add(qs, ss, pen, S=1):
        its = []
        for _ in range(rng.randint(1, 3)):
            k = rng.choice([-1, 1, 2, 3])
            its.append((k, rng.choice([0, 0, 1, 2]), rng.choice([-1, 1, 2, 2]), rng.choice([-1, -1, 2, 3, 4])))
        out.append({"q": qs, "s": ss, "S": S, "iters": its, "order": [rng.randint(0, 5) for _ in range(12)],
                    "set": {"s1": [[0]], "s2": [[0]], "inner": "sq", "w": 0, "pen": pen, "ms": 0, "md": 0,
                            "mld": -1, "psi": [0, 0, 0, 0]}})
    vals = (0, 1, 3)
    # exhaustive: |q| <= 2, |s| <= 4 (quick: thinned), penalties 0, 0.5 (scale 2), 1
    for lq in (1, 2):
        for ls in (1, 2, 3, 4):
            for qv in itertools.product(vals, repeat=lq):
                for sv in itertools.product(vals, repeat=ls):
                    if rng.random() > (0.3 if q else 0.6):
                        continue
                    pen, S = rng.choice([(0, 1), (1, 1), (1, 2), (2, 1)])
                    add([[v] for v in qv], [[v] for v in sv], pen, S)
    for _ in range(1500 if q else 8000):
        lq = rng.randint(1, 4)
        ls = rng.randint(1, 8)
        nd = rng.choice([1, 1, 1, 2])
        if nd == 1:
            qs = [[rng.choice((0, 1, 2, 5))] for _ in range(lq)]
            ss = [[rng.choice((0, 1, 2, 5))] for _ in range(ls)]
        else:
            qs = [list(rng.choice(P2)) for _ in range(lq)]
            ss = [list(rng.choice(P2)) for _ in range(ls)]
        pen, S = rng.choice([(0, 1), (1, 1), (1, 2), (3, 2), (2, 1)])
        add(qs, ss, pen, S)
    for k, it in enumerate(out):
        it["id"] = "c13-%d" % k
    return out


RULE = ("cases: queries of length 1-4 and series of length 1-8 (exhaustive thinned for |q|<=2,|s|<=4 over a 3-letter "
        "alphabet, seeded beyond), penalties 0 / 0.5 / 1 / 1.5 / 2, ndim 1-2, both engines; recorded: the matching "
        "function, the match (segment, path, value, distance) for EVERY end point and best_match, and 1-3 k-best "
        "generators with random (k, overlap, minlength, maxlength) iterated INTERLEAVED over one alignment object and "
        "compared with the same generator alone on a fresh object; TLC judges values against the relaxed matrix "
        "(proved equal to the minimum over start points in Act M), paths by MatchPathOK and iterators by IterOK; "
        "non-trivial = penalty > 0 or |s| > |q|")


def judge(ctx, src, its):
    ctx.log("running %d subsequence-alignment cases" % len(its))
    outs = core.pool_map(src, "harness.sax", "run_c13", its, chunksize=20)
    records, by_id = [], {}
    for it, o in zip(its, outs):
        if o.get("crashed"):
            o = {"mf": [{"route": "PROCESS-CRASH", "vals": [-5]}], "matches": [], "iters": [], "routes": ["PROCESS-CRASH"]}
        rec = {"id": it["id"], "kind": "sa", "set": it["set"], "q": it["q"], "s": it["s"]}
        rec.update({k: v for k, v in o.items() if k != "id"})
        it["_rec"] = rec
        by_id[it["id"]] = it
        records.append(rec)
        ctx.evaluations += len(rec["routes"])
    ctx.log("Act T: TLC judges %d records (%d observations)" % (len(records), ctx.evaluations))
    res = tlc.validate_traces("SATrace", "SATrace.cfg", records, chunk=100, parallel=14, canary_fields=["mf"])
    ctx.add_tv(res)
    classify(ctx, by_id, res["fails"])
    ctx.nontrivial = {it["id"] for it in its if it["set"]["pen"] or len(it["s"]) > len(it["q"])}
    ctx.samples = [it["_rec"] for it in its[:: max(1, len(its) // 3)]][:3]
    return core.finish(ctx)


def run(ctx):
    ctx.rule = RULE
    src = build.py_build()
    cfg = "MC_SubseqAlign_q.cfg" if ctx.quick else "MC_SubseqAlign_t.cfg"
    ctx.log("Act M: %s" % cfg)
    ctx.add_mc(tlc.model_check("MC_SubseqAlign", cfg, workers=12))
    return judge(ctx, src, items(ctx))


def replay(ctx, path):
    rec = json.load(open(path))
    return judge(ctx, build.py_build(), [rec["case"]])
