"""C20 - calls are pure: inputs untouched, container- and history-independent."""
import copy
import json

from harness import build, core, dtwcases as dc, tlc
from harness.dtwfamily import classify

PID = "C20"
K1 = ["list", "tuple", "array", "numpy", "numpy_strided", "numpy_neg"]
K1C = ["array", "numpy", "numpy_strided", "numpy_neg"]            # containers the C engine documents
K2 = ["numpy", "numpy_strided", "numpy_f", "numpy_tview"]
P2 = [(0, 0), (3, 0), (0, 4), (3, 4)]


def make_item(rng, ncalls):
    vals = (0, 1, 2, 3, 5)
    L = rng.randint(2, 5)
    equal = rng.random() < 0.6
    objs = {}
    for i in range(4):
        objs["s%d" % i] = [[rng.choice(vals)] for _ in range(L if equal else rng.randint(2, 5))]
    # one series that is longer than the members of an equal-length collection (a DBA centre of another length)
    objs["s4"] = [[rng.choice(vals)] for _ in range(L + rng.choice([1, 2]))]
    for i in range(3):
        objs["m%d" % i] = [list(rng.choice(P2)) for _ in range(rng.randint(2, 4))]
    # the same three bivariate series twice: C-ordered members, and members in another memory order
    objs["colm"] = {"col": ["m0", "m1", "m2"], "elem": "numpy"}
    objs["colmf"] = {"col": ["m0", "m1", "m2"], "elem": rng.choice(["numpy_f", "numpy_tview", "numpy_strided"])}
    objs["col"] = {"col": ["s0", "s1", "s2", "s3"], "elem": rng.choice(["list", "array", "numpy"])}
    # members of the NumPy collection are sometimes non-contiguous views (a column of a matrix, x[::2])
    objs["colnp"] = {"col": ["s0", "s1", "s2", "s3"], "elem": rng.choice(["numpy", "numpy", "numpy_strided"])}
    dicts = {"opts": {"window": rng.choice([2, 3]), "penalty": rng.choice([0, 1])}}
    calls = []
    for _ in range(ncalls):
        r = rng.random()
        a, b = rng.sample(["s0", "s1", "s2", "s3"], 2)
        w = rng.choice([None, None, 2, 3])
        pen = rng.choice([None, None, 1])
        opts = {}
        if w:
            opts["window"] = w
        if pen:
            opts["penalty"] = pen
        case = dc.base_case(objs[a], objs[b], w=w or 0, pen=pen or 0)
        if r < 0.22:
            rt = rng.choice(["dtw.distance", "dtw.distance", "dtw.distance[use_c]", "dtw.distance_fast"])
            kinds = [rng.choice(K1 if rt == "dtw.distance" else K1C) for _ in range(2)]
            calls.append({"routine": rt, "args": [a, b], "kinds": kinds, "opts": opts, "case": case,
                          "nonumpy_ok": rt == "dtw.distance" and all(k in ("list", "tuple", "array") for k in kinds)})
        elif r < 0.32:
            rt = rng.choice(["dtw.lb_keogh", "dtw.lb_keogh[use_c]", "ed.distance", "ed.distance_fast", "dtw.ub_euclidean"])
            c_engine = rt in ("dtw.lb_keogh[use_c]", "ed.distance_fast")
            kinds = [rng.choice(K1C if c_engine else K1) for _ in range(2)]
            o2 = {"window": w} if (w and "lb_keogh" in rt) else {}
            calls.append({"routine": rt, "args": [a, b], "kinds": kinds, "opts": o2,
                          "nonumpy_ok": (not c_engine) and all(k in ("list", "tuple", "array") for k in kinds)})
        elif r < 0.44:
            rt = rng.choice(["dtw.warping_paths", "dtw.warping_paths_fast", "dtw.warping_path", "dtw.warping_path_fast",
                             "dtw.warp"])
            c_engine = rt.endswith("_fast")
            kinds = [rng.choice(K1C if c_engine else ["list", "array", "numpy", "numpy_strided"]) for _ in range(2)]
            calls.append({"routine": rt, "args": [a, b], "kinds": kinds, "opts": opts, "use_c": c_engine})
        elif r < 0.52:
            ma, mb = "m0", "m1"
            rt = rng.choice(["dtw_ndim.distance", "dtw_ndim.distance_fast"])
            calls.append({"routine": rt, "args": [ma, mb], "kinds": [rng.choice(K2), rng.choice(K2)], "opts": opts})
        elif r < 0.56:
            calls.append({"routine": rng.choice(["dtw_ndim.distance_matrix", "dtw_ndim.distance_matrix_fast"]),
                          "args": [rng.choice(["colm", "colmf"])], "kinds": [rng.choice(["col_list", "col_container"])],
                          "opts": opts})
        elif r < 0.66:
            rt = rng.choice(["dtw.distance_matrix", "dtw.distance_matrix_fast"])
            kind = rng.choice(["col_list", "col_tuple", "col_container"] + (["col_2d"] if equal else []))
            name = "col" if (rt == "dtw.distance_matrix" and kind != "col_2d") else "colnp"
            if rng.random() < 0.4:
                # relaxation on one series only: d(a, b) != d(b, a), so the (row, column) roles matter
                opts = dict(opts, psi=rng.choice([[1, 0, 0, 0], [0, 0, 1, 0], [0, 1, 0, 0], [1, 1, 0, 0]]))
            calls.append({"routine": rt, "args": [name], "kinds": [kind], "opts": opts,
                          "parallel": rng.random() < 0.3,
                          "nonumpy_ok": rt == "dtw.distance_matrix" and kind in ("col_list", "col_tuple")
                          and objs["col"]["elem"] in ("list", "array") and name == "col"})
        elif r < 0.74:
            kind = rng.choice(["col_list", "col_container"] + (["col_2d"] if equal else []))
            use_c = rng.random() < 0.5
            calls.append({"routine": rng.choice(["dba", "dba_loop"]), "args": ["colnp", rng.choice([a, "s4"])],
                          "kinds": [kind, "numpy"],
                          "opts": opts, "use_c": use_c})
        elif r < 0.82:
            calls.append({"routine": "subsequence_search", "args": [a, "colnp"], "kinds": ["numpy", "col_list"],
                          "dict": "opts", "k": rng.choice([1, 2, 3]), "use_lb": rng.random() < 0.5,
                          "use_c": rng.random() < 0.5})
        elif r < 0.88:
            calls.append({"routine": "subsequence_alignment", "args": [a, b], "kinds": ["numpy", rng.choice(["numpy", "numpy_strided"])],
                          "use_c": rng.random() < 0.5})
        elif r < 0.94:
            calls.append({"routine": "Hierarchical.fit", "args": ["colnp"], "kinds": [rng.choice(["col_list", "col_container"])],
                          "dict": "opts", "use_c": rng.random() < 0.5})
        elif r < 0.97 and equal:
            calls.append({"routine": "KMeans.fit", "args": ["colnp"], "kinds": [rng.choice(["col_list", "col_2d"])],
                          "dict": "opts", "use_c": rng.random() < 0.5})
        else:
            calls.append({"routine": "dtw.distance_matrix[dict]", "args": ["colnp"], "kinds": ["col_list"], "dict": "opts"})
    # repeat earlier calls with re-drawn container kinds (and engine): the same abstract call must give the same result
    layout = [c for c in calls if c["routine"] in ("dtw.warping_paths_fast", "dtw.warping_path_fast",
                                                   "subsequence_alignment", "dtw_ndim.distance_matrix",
                                                   "dtw_ndim.distance_matrix_fast")]
    for rep in range(max(1, ncalls // 2) + 2):
        # two of the repeats are reserved for routines that hand a second series to C (layout-sensitive)
        c0 = copy.deepcopy(rng.choice(layout if (rep < 2 and layout) else calls))
        rt = c0["routine"]
        if rt.startswith(("dtw.distance", "dtw.lb_keogh", "ed.distance")) and "matrix" not in rt and "[dict]" not in rt:
            fam = {"dtw.distance": ["dtw.distance", "dtw.distance[use_c]", "dtw.distance_fast"],
                   "dtw.lb_keogh": ["dtw.lb_keogh", "dtw.lb_keogh[use_c]"],
                   "ed.distance": ["ed.distance", "ed.distance_fast"]}
            for key, members in fam.items():
                if rt in members:
                    c0["routine"] = rng.choice(members)
            c_engine = c0["routine"] not in ("dtw.distance", "dtw.lb_keogh", "ed.distance")
            c0["kinds"] = [rng.choice(K1C if c_engine else K1) for _ in c0["kinds"]]
            c0["nonumpy_ok"] = (not c_engine) and all(k in ("list", "tuple", "array") for k in c0["kinds"])
        elif rt in ("dtw.warping_paths", "dtw.warping_paths_fast", "dtw.warping_path", "dtw.warping_path_fast", "dtw.warp"):
            # same routine and engine, other memory layouts of the same numbers
            c_engine = rt.endswith("_fast")
            c0["kinds"] = [rng.choice(K1C if c_engine else ["list", "array", "numpy", "numpy_strided"]) for _ in c0["kinds"]]
        elif rt == "subsequence_alignment":
            c0["kinds"] = ["numpy", rng.choice(["numpy", "numpy_strided", "numpy_strided"])]
        elif rt.startswith("dtw_ndim.distance_matrix"):
            c0["routine"] = rng.choice(["dtw_ndim.distance_matrix", "dtw_ndim.distance_matrix_fast"])
            c0["args"] = [rng.choice(["colm", "colmf"])]
            c0["kinds"] = [rng.choice(["col_list", "col_container"])]
        elif rt in ("dba", "dba_loop"):
            # same engine, the collection in another container (list of arrays / SeriesContainer / one 2-D array)
            c0["kinds"] = [rng.choice(["col_list", "col_container"] + (["col_2d"] if equal else [])), "numpy"]
        calls.append(c0)
    return {"objs": objs, "dicts": dicts, "calls": calls}


def items(ctx):
    q = ctx.quick
    rng = ctx.rng("c20")
    out = [make_item(rng, rng.randint(4, 8)) for _ in range(1000 if q else 8000)]
    for k, it in enumerate(out):
        it["id"] = "c20-%d" % k
    return out


RULE = ("model: Purity.tla (store unchanged by every call, results functional in the content) with a sensitivity "
        "self-test (a routine that normalises its argument in place is refuted). implementation: seeded histories of 4-8 "
        "calls over shared objects (5 univariate and 3 bivariate series, four collections, one settings dictionary) drawn "
        "from 20 routines (distance, bounds, cost matrix, path, warp, distance matrix, DBA, subsequence search / alignment, "
        "hierarchical and k-means clustering; both engines) with the container kind re-drawn per call (list, tuple, "
        "array('d'), ndarray, strided / negative-stride / F-ordered / transposed views, list / tuple of arrays, 2-D "
        "array, SeriesContainer); the container objects persist across calls; before/after contents of EVERY object "
        "are recorded around every call; a second pass runs the NumPy-free routines with NumPy hidden and joins the "
        "same history; TLC judges: no object changed, results equal for equal (routine, content, settings) across "
        "kinds / engines / NumPy presence / position in the history, distance results equal DTWCore; "
        "non-trivial = history with >= 2 calls sharing an object")


def _canary(rec):
    for c in rec["h"]:
        if c["after"] and isinstance(c["after"][0][2], list) and c["after"][0][2] and isinstance(c["after"][0][2][0], list) \
                and c["after"][0][2][0] and isinstance(c["after"][0][2][0][0], int):
            c["after"][0][2][0][0] += 1
            return rec
    return None


def judge(ctx, src, its):
    ctx.log("running %d call histories (with NumPy, then with NumPy hidden)" % len(its))
    outs = core.pool_map(src, "harness.purx", "run_c20", its, chunksize=10)
    outs2 = core.pool_map(src, "harness.purx", "run_c20", its, chunksize=10,
                          env={"DTAIDISTANCE_TESTWITHOUTNUMPY": "1"})
    records, by_id = [], {}
    for it, o, o2 in zip(its, outs, outs2):
        if o.get("crashed") or o2.get("crashed"):
            o = {"h": [{"route": "PROCESS-CRASH", "before": [], "after": [["x", "x", [[1]]]], "token": "x", "result": "x",
                        "raised": True, "hasspec": False, "specresult": 0,
                        "c": {"s1": [[0]], "s2": [[0]], "inner": "sq", "w": 0, "pen": 0, "ms": 0, "md": 0, "mld": -1,
                              "psi": [0, 0, 0, 0]}}], "routes": ["PROCESS-CRASH"]}
            o2 = {"h": [], "routes": []}
        h2 = o2["h"]
        # the NumPy-free pass is a separate process: its store snapshots start afresh
        rec = {"id": it["id"], "kind": "purity", "h": o["h"], "routes": o["routes"] + o2["routes"]}
        it["_rec"] = rec
        by_id[it["id"]] = it
        records.append(rec)
        if h2:
            rec2 = {"id": it["id"] + "n", "kind": "purity", "h": h2 + [dict(x, before=h2[-1]["after"], after=h2[-1]["after"])
                                                                      for x in o["h"] if not x["raised"]][:6],
                    "routes": o2["routes"]}
            it2 = dict(it)
            it2["_rec"] = rec2
            by_id[rec2["id"]] = it2
            records.append(rec2)
        ctx.evaluations += len(rec["routes"])
    ctx.log("Act T: TLC judges %d histories (%d calls)" % (len(records), ctx.evaluations))
    res = tlc.validate_traces("PurityTrace", "PurityTrace.cfg", records, chunk=40, parallel=14, canary_fields=[_canary])
    ctx.add_tv(res)
    classify(ctx, by_id, res["fails"])
    ctx.nontrivial = {it["id"] for it in its if len(it["calls"]) >= 2}
    ctx.samples = [{"id": it["id"], "calls": [c["routine"] + str(c["kinds"]) for c in it["calls"]]}
                   for it in its[:: max(1, len(its) // 3)]][:3]
    return core.finish(ctx)


def run(ctx):
    ctx.rule = RULE
    src = build.py_build()
    ctx.log("Act M: MC_Purity_q.cfg + self-test")
    ctx.add_mc(tlc.model_check("MC_Purity", "MC_Purity_q.cfg", workers=4))
    st = tlc.expect_violation("MC_Purity", "MC_Purity_impure.cfg", "Pure")
    ctx.extra["selftest_in_place_routine_refuted"] = st["invariant_violated"]
    return judge(ctx, src, items(ctx))


def replay(ctx, path):
    rec = json.load(open(path))
    return judge(ctx, build.py_build(), [rec["case"]])
