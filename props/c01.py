"""C01 - DTW distance (pure Python) equals the optimum over all admissible warping paths."""
import json

from harness import build, core, dtwcases as dc, tlc
from harness.dtwfamily import run_dist_family

PID = "C01"
QUICK_MC = ["MC_DTWCore_c01q.cfg", "MC_DTWCore_c01q2.cfg"]
THOROUGH_MC = ["MC_DTWCore_c01q3.cfg", "MC_DTWCore_c01t.cfg", "MC_DTWCore_c01t2.cfg"]


def cases(ctx):
    q = ctx.quick
    sd = ctx.seed
    out = []
    # S1 value-rich, window x penalty
    out += dc.slice_values(3, (0, 1, 3), (0, 1, 2, 3), (0, 1), salt="s1a")
    out += dc.slice_values(4, (0, 1, 3), (0, 1, 2, 3, 4), (0, 1), frac=0.08 if q else 1.0, seed=sd, salt="s1b")
    # S2 psi x window x unequal lengths (all 4-tuples)
    out += dc.slice_psi(3, (0, 2), (0, 1, 2, 3), pens=(0, 1), frac=0.10 if q else 1.0, seed=sd, salt="s2a")
    out += dc.slice_psi(4, (0, 2), (0, 1, 2, 3), pens=(0,), frac=0.004 if q else 0.08, seed=sd, salt="s2b")
    # S3 max_step x psi x window
    for ms in (1, 2):
        out += dc.slice_values(3, (0, 1, 3), (0, 1, 2), (0, 1), ms=ms, frac=0.5 if q else 1.0, seed=sd, salt="s3")
        out += dc.slice_psi(3, (0, 1, 3), (0, 2), pmax=1, ms=ms, frac=0.03 if q else 0.5, seed=sd, salt="s3p")
    # S4 inner distances (euclidean, user-supplied object)
    for inner in ("eu", "cu"):
        out += dc.slice_values(3, (0, 1, 3), (0, 1, 2), (0, 1, 2), inner=inner, frac=0.3 if q else 1.0,
                               seed=sd, salt="s4" + inner)
        out += dc.slice_values(3, (0, 1, 3), (0, 2), (0, 1), inner=inner, ms=2, frac=0.2 if q else 1.0,
                               seed=sd, salt="s4m" + inner)
        out += dc.slice_psi(3, (0, 2), (0, 2), pens=(0, 1), pmax=2, inner=inner, frac=0.02 if q else 0.3,
                            seed=sd, salt="s4p" + inner)
    # S5 max_length_diff
    for mld in (0, 1, 2):
        out += dc.slice_values(3, (0, 1, 3), (0, 2), (0,), mld=mld, frac=0.3 if q else 1.0, seed=sd, salt="s5")
    # S7 half-integer alphabet (scale 2): penalties / max_step off the integers
    out += dc.slice_values(3, (0, 1, 3), (0, 2), (0, 1, 3), S=2, frac=0.3 if q else 1.0, seed=sd, salt="s7")
    out += dc.slice_values(3, (0, 1, 3), (0, 2), (0, 1), S=2, ms=3, frac=0.2 if q else 1.0, seed=sd, salt="s7m")
    # S6 / simulation: seeded larger cases over the full cross product
    rng = ctx.rng("c01")
    n = 6000 if q else 120000
    out += dc.random_cases(rng, n, 7 if q else 9, (0, 1, 2, 3, 5), inners=("sq", "eu", "cu"),
                           pens=(0, 0, 1, 2), mss=(0, 0, 0, 2, 3), mlds=(-1, -1, -1, 0, 1, 3), psi_prob=0.5)
    out += dc.random_cases(rng, n // 3, 8 if q else 10, (-3, -1, 0, 2), S=2, inners=("sq", "eu"),
                           pens=(0, 1, 3), mss=(0, 0, 5), psi_prob=0.4)
    return dc.with_ids(out, "c01-")


def run(ctx):
    return run_dist_family(ctx, cases(ctx), worker="run_c01", nonumpy_pass=True,
                           mc_cfgs=QUICK_MC if ctx.quick else QUICK_MC + THOROUGH_MC,
                           rule="cases: exhaustive slices S1-S7 of DESIGN 4/C01 (all series pairs over small alphabets x window x "
                                "penalty x psi 4-tuples x max_step x inner distance x max_length_diff) plus seeded larger "
                                "cases; non-trivial = band excludes a cell, or psi/penalty/max_step active, or unequal lengths; "
                                "distinct by (series, settings)")


def replay(ctx, path):
    rec = json.load(open(path))
    return run_dist_family(ctx, [rec["case"]], worker="run_c01", nonumpy_pass=True, mc_cfgs=[], rule="replay")
