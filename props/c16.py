"""C16 - DBA k-means returns k clusters covering all series, nearest mean each."""
import json

from harness import build, core, tlc
from harness.dtwfamily import classify

PID = "C16"
P2 = [(0, 0), (3, 0), (0, 4), (3, 4)]


def items(ctx):
    q = ctx.quick
    rng = ctx.rng("c16")
    out = []
    for _ in range(400 if q else 2500):
        nd = rng.choice([1, 1, 1, 2])
        n = rng.randint(3, 8)
        equal = rng.random() < 0.6
        L = rng.randint(2, 5)
        sers = []
        for _s in range(n):
            if sers and rng.random() < 0.2:
                sers.append([list(p) for p in rng.choice(sers)])          # duplicates allowed
                continue
            l = L if equal else rng.randint(2, 5)
            sers.append([[rng.choice((0, 1, 2, 5, 9))] if nd == 1 else list(rng.choice(P2)) for _p in range(l)])
        fits = []
        for _f in range(2):
            k = rng.randint(1, min(3, n - 1))
            fits.append({"k": k, "seed": rng.randint(0, 10 ** 6), "init": rng.choice(["kmeans++", "random", "sample"]),
                         "drop": rng.choice([None, None, 1, 2]), "window": rng.choice([0, 0, 2]),
                         "penalty": rng.choice([0, 0, 1]), "use_c": rng.random() < 0.5, "parallel": False,
                         # psi incl. per-series 4-tuples: DTW is then not symmetric in (series, mean)
                         "psi": rng.choice([None, None, None, 1, [1, 0, 0, 0], [0, 0, 1, 0], [1, 1, 0, 0], [0, 1, 1, 0]]),
                         "maxit": rng.choice([1, 2, 5]), "dbait": rng.choice([1, 3]), "monitor": rng.random() < 0.7})
        if rng.random() < 0.4:
            # the second fit re-uses the first fit's model object (same construction), other seed, maybe fewer series
            fits[1] = dict(fits[0], seed=rng.randint(0, 10 ** 6), reuse=True,
                           drop_last=(n - 1 > fits[0]["k"]) and rng.random() < 0.6)
        out.append({"series": sers, "fits": fits, "matrix": rng.random() < 0.4})
    # options that bind (window 1, penalty 2-3, per-series psi) on longer and multivariate series: an assignment
    # helper that drops or mangles dists_options then picks a mean that is not nearest
    for _ in range(200 if q else 1500):
        nd = rng.choice([1, 2, 2])
        n = rng.randint(4, 7)
        L = rng.randint(4, 6)
        sers = [[[rng.choice((0, 1, 2, 5, 9))] if nd == 1 else list(rng.choice(P2)) for _p in range(L)] for _s in range(n)]
        fits = [{"k": rng.randint(2, 3), "seed": rng.randint(0, 10 ** 6), "init": rng.choice(["kmeans++", "random"]),
                 "drop": None, "window": 1, "penalty": rng.choice([0, 2, 3]), "use_c": rng.random() < 0.7,
                 "psi": rng.choice([None, None, [1, 0, 0, 0], [0, 0, 1, 0]]),
                 "parallel": False, "maxit": rng.choice([1, 2, 5]), "dbait": rng.choice([1, 3]), "monitor": False}]
        out.append({"series": sers, "fits": fits, "matrix": rng.random() < 0.4})
    # a few fits through the real multiprocessing pool
    for _ in range(3 if q else 20):
        n = rng.randint(4, 7)
        sers = [[[rng.choice((0, 1, 2, 5, 9))] for _p in range(4)] for _s in range(n)]
        out.append({"series": sers, "matrix": False,
                    "fits": [{"k": 2, "seed": rng.randint(0, 999), "init": "kmeans++", "drop": None, "window": 0,
                              "penalty": 0, "use_c": rng.random() < 0.5, "parallel": True, "maxit": 2, "dbait": 2,
                              "monitor": True}]})
    for k, it in enumerate(out):
        it["id"] = "c16-%d" % k
    return out


RULE = ("model: the assign / stop / repair-empty / update / final-assign state machine over ALL rank tables (quick k=2 n=3; thorough also k=2 n=4 "
        "and k=3 n=3; max_it <= 2) with outlier masks and empty-cluster repair as nondeterministic choices: every terminal "
        "state has keys 0..k-1, a partition, nearest-mean membership and performed_it <= max_it+1. implementation: "
        "seeded data sets (n 3-8, k < n, ndim 1-2, duplicates, list and matrix containers) x seeds x initialisation "
        "{k-means++, random, sample size 1} x drop_stddev x window/penalty/psi (scalar and per-series 4-tuples) x use_c, serial and a few with the real "
        "multiprocessing Pool, second fits on the same model object (other seed, one series fewer); per fit the returned clusters, performed_it, len(means), the monitor_distances calls and "
        "the dense ranks of the DTW distances series x final means (library single-pair routine, decided under "
        "C01/C02) are judged by TLC with the same postcondition predicate; non-trivial = k > 1")


def _canary(rec):
    for f in rec["fits"]:
        if not f["raised"] and f["result"] and f["result"][0][1]:
            f["result"][0][1].pop()          # one series is no longer in any cluster
            return rec
    return None


def judge(ctx, src, its):
    ctx.log("running %d k-means data sets" % len(its))
    outs = core.pool_map(src, "harness.kmx", "run_c16", its, chunksize=4)
    records, by_id = [], {}
    for it, o in zip(its, outs):
        if o.get("crashed"):
            o = {"fits": [{"route": "PROCESS-CRASH", "raised": True, "k": 1, "n": 1, "nmeans": 0, "result": [],
                           "ranks": [], "performed": 0, "maxit": 0, "monitored": False, "calls": 0, "finals": 0,
                           "finalsame": False}], "routes": ["PROCESS-CRASH"]}
        rec = {"id": it["id"], "kind": "kmeans"}
        rec.update({k: v for k, v in o.items() if k != "id"})
        it["_rec"] = rec
        by_id[it["id"]] = it
        records.append(rec)
        ctx.evaluations += len(rec["routes"])
    ctx.log("Act T: TLC judges %d records (%d fits)" % (len(records), ctx.evaluations))
    res = tlc.validate_traces("KMTrace", "KMTrace.cfg", records, chunk=100, parallel=8, canary_fields=[_canary])
    ctx.add_tv(res)
    classify(ctx, by_id, res["fails"])
    ctx.nontrivial = {it["id"] for it in its if any(f["k"] > 1 for f in it["fits"])}
    ctx.samples = [it["_rec"] for it in its[:: max(1, len(its) // 3)]][:3]
    return core.finish(ctx)


def run(ctx):
    ctx.rule = RULE
    src = build.py_build()
    cfg = "KMeans_q.cfg" if ctx.quick else "KMeans_t.cfg"
    ctx.log("Act M: %s" % cfg)
    ctx.add_mc(tlc.model_check("KMeans", cfg, workers=12))
    if not ctx.quick:
        ctx.add_mc(tlc.model_check("KMeans", "KMeans_t2.cfg", workers=12))
        ctx.add_mc(tlc.model_check("KMeans", "KMeans_q.cfg", workers=12))
    return judge(ctx, src, items(ctx))


def replay(ctx, path):
    rec = json.load(open(path))
    return judge(ctx, build.py_build(), [rec["case"]])
