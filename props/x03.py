"""X03 (extension, not one of the listed properties) - the rolling two-row buffer of the pure-Python
dtw.distance follows the index arithmetic of Layout.tla, which LayoutProofs.tla proves in-bounds for ALL sizes."""
import json
from harness import build, core, tlc

PID = "X03"
RULE = ("proof: tlapm (SMT back end) discharges LayoutProofs.tla for all series lengths and windows: band symmetry, "
        "the column loop visits exactly the band, every subscript of the rolling buffer of dtw.distance and every "
        "slot of the compact C matrix lies inside its row. model: TLC checks on bounded instances that Layout.tla "
        "agrees with Compact.tla and DTWCore.tla (MC_Compact LayoutAgrees, MC_DTWCore LayoutBandAgrees). "
        "implementation: dtw.distance is run with a recording stand-in for the array module, for all (l1, l2) <= 7 x 7 "
        "(thorough 10 x 10) and every window 1..max+1 and none; the observed buffer size and the complete sequence of "
        "read subscripts must equal the sequence Layout.tla predicts (diag, up, left, cell per in-band cell; corner)")


def proofs(ctx):
    from harness import tlaps
    return tlaps.layout_proofs(strict=True)["proved"]


def items(ctx):
    q = ctx.quick
    rng = ctx.rng("x03")
    out = []
    L = 7 if q else 10
    for l1 in range(1, L + 1):
        for l2 in range(1, L + 1):
            for w in [0] + list(range(1, max(l1, l2) + 2)):
                if q and rng.random() > 0.5:
                    continue
                out.append({"s1": [rng.choice((0, 1, 2, 5)) for _ in range(l1)],
                            "s2": [rng.choice((0, 1, 2, 5)) for _ in range(l2)], "w": w,
                            "pen": rng.choice([0, 0, 1])})
    for k, it in enumerate(out):
        it["id"] = "x03-%d" % k
    return out


def _canary(rec):
    if rec.get("reads"):
        rec["reads"][len(rec["reads"]) // 2] += 1
        return rec
    return None


def judge(ctx, src, its):
    ctx.log("running %d cases with a recording array module" % len(its))
    outs = core.pool_map(src, "harness.rollx", "run_x03", its, chunksize=40)
    records, by_id = [], {}
    for it, o in zip(its, outs):
        if o.get("crashed"):
            o = {"l1": len(it["s1"]), "l2": len(it["s2"]), "w": it["w"], "raised": "PROCESS-CRASH", "same": False,
                 "buflen": -1, "reads": [], "writes": [], "nbufs": 0}
        rec = {k: v for k, v in o.items()}
        rec["id"] = it["id"]
        it["_rec"] = rec
        by_id[it["id"]] = it
        records.append(rec)
        ctx.evaluations += len(rec["reads"])
    ctx.log("Act T: TLC judges %d records (%d subscripts)" % (len(records), ctx.evaluations))
    res = tlc.validate_traces("LayoutTrace", "LayoutTrace.cfg", records, chunk=300, parallel=8, canary_fields=[_canary])
    ctx.add_tv(res)
    fails = dict(res["fails"])
    for it in its:
        r = it["_rec"]
        if it["id"] not in fails and (r["raised"] or not r["same"]):
            fails[it["id"]] = "recording-changed-the-result" if not r["raised"] else "raised-" + r["raised"]
    nv = 0
    for rid, clause in sorted(fails.items()):
        it = by_id[rid]
        nv += 1
        path = core.write_replay(ctx, rid, {"property": PID, "case": {k: v for k, v in it.items() if k != "_rec"},
                                            "rejected_clause": clause, "record": it["_rec"]}) if nv <= 10 \
            else ctx.violations[0][1]
        ctx.violations.append(("%s rejected at %s" % (rid, clause), path))
    ctx.nontrivial = {it["id"] for it in its if it["w"] and it["w"] < max(len(it["s1"]), len(it["s2"]))}
    ctx.samples = [{k: v for k, v in it["_rec"].items() if k not in ("reads", "writes")} for it in its[:: max(1, len(its) // 3)]][:3]
    return core.finish(ctx)


def run(ctx):
    ctx.rule = RULE
    src = build.py_build()
    n = proofs(ctx)
    ctx.extra["tlapm_obligations_proved"] = n
    ctx.log("tlapm: all %d obligations of LayoutProofs.tla proved" % n)
    ctx.add_mc(tlc.model_check("MC_Compact", "MC_Compact_q.cfg" if ctx.quick else "MC_Compact_t.cfg", workers=8))
    ctx.add_mc(tlc.model_check("MC_DTWCore", "MC_DTWCore_c10q.cfg", workers=8))
    return judge(ctx, src, items(ctx))


def replay(ctx, path):
    rec = json.load(open(path))
    return judge(ctx, build.py_build(), [rec["case"]])
