"""C12 - DBA update averages optimally aligned points and never worsens the fit."""
import json

from harness import build, core, tlc
from harness.dtwfamily import classify

PID = "C12"
P2 = [(0, 0), (3, 0), (0, 4), (3, 4)]


def opt_path_count(a, b, inner, w, pen):
    """Number of optimal warping paths of (a, b) under the band / penalty rules of the specification."""
    l1, l2 = len(a), len(b)
    W = w if w else max(l1, l2)
    INF = float("inf")

    def pd(p, q):
        s = sum((x - y) ** 2 for x, y in zip(p, q))
        if inner == "sq":
            return s
        return abs(p[0] - q[0]) if len(p) == 1 else int(round(s ** 0.5))
    P = pen * pen if inner == "sq" else pen
    cost = [[INF] * l2 for _ in range(l1)]
    ways = [[0] * l2 for _ in range(l1)]
    for i in range(l1):
        for j in range(l2):
            if not (i - max(0, l1 - l2) - W + 1 <= j <= i + max(0, l2 - l1) + W - 1):
                continue
            d = pd(a[i], b[j])
            if i == 0 and j == 0:
                cost[i][j], ways[i][j] = d, 1
                continue
            cands = []
            if i > 0 and j > 0:
                cands.append((cost[i - 1][j - 1], ways[i - 1][j - 1]))
            if i > 0:
                cands.append((cost[i - 1][j] + P, ways[i - 1][j]))
            if j > 0:
                cands.append((cost[i][j - 1] + P, ways[i][j - 1]))
            m = min(c for c, _ in cands)
            if m == INF:
                continue
            cost[i][j] = d + m
            ways[i][j] = sum(wy for c, wy in cands if c == m)
    return ways[l1 - 1][l2 - 1]


def choices(it):
    """Size of the space of 'one optimal path per selected series' that TLC searches for this case."""
    n = 1
    for k, sel in enumerate(it["mask"]):
        if sel:
            n *= max(1, opt_path_count(it["avg"], it["ser"][k], it["set"]["inner"], it["set"]["w"], it["set"]["pen"]))
    return n


MAX_CHOICES = 3000      # Allowed(new) is an existential over this product; heavier cases are not generated


def make(rng, nser, Lmax, nd, vals=(0, 1, 3, 6)):
    def pt():
        return [rng.choice(vals)] if nd == 1 else list(rng.choice(P2))
    equal = rng.random() < 0.4
    L = rng.randint(1, Lmax)
    ser = [[pt() for _ in range(L if equal else rng.randint(1, Lmax))] for _ in range(nser)]
    if rng.random() < 0.15:
        ser = [ser[0]] * nser          # identical series: fixed point when avg is that series
        avg = [list(p) for p in ser[0]]
    else:
        avg = [pt() for _ in range(rng.randint(1, Lmax))]
    mask = [rng.random() < 0.7 for _ in range(nser)]
    if not any(mask):
        mask[rng.randrange(nser)] = True
    st = {"s1": [[0]], "s2": [[0]], "inner": rng.choice(["sq", "sq", "eu"]), "w": rng.choice([0, 0, 2, 3]),
          "pen": rng.choice([0, 0, 1]), "ms": 0, "md": 0, "mld": -1, "psi": [0, 0, 0, 0]}
    return {"ser": ser, "avg": avg, "mask": mask, "set": st}


def items(ctx):
    q = ctx.quick
    rng = ctx.rng("c12")
    out = []
    n = 700 if q else 12000
    for k in range(n):
        nser = rng.choice([1, 2, 2, 3, 3])
        nd = rng.choice([1, 1, 1, 2])
        out.append(make(rng, nser, 3 if nser == 3 else 4, nd))
    # settings that bind: window 1-2 and penalties 2-3 on longer series, so that dropping or mangling a setting on
    # one route (e.g. the n-dimensional Python branch) changes the optimal paths
    for k in range(350 if q else 5000):
        nd = rng.choice([1, 2, 2])
        it = make(rng, 2, 5, nd)
        it["set"]["w"] = rng.choice([1, 1, 2])
        it["set"]["pen"] = rng.choice([0, 2, 3])
        out.append(it)
    # probabilistic variant (sampled paths): selected series over {0,1,3}, unselected ones far away, masks with
    # unselected series before selected ones; only the range clause is judged
    for k in range(150 if q else 2500):
        nd = rng.choice([1, 1, 2])
        nser = rng.choice([3, 4, 5])
        it = make(rng, nser, 4, nd)
        mask = [rng.random() < 0.55 for _ in range(nser)]
        if not any(mask):
            mask[rng.randrange(nser)] = True
        it["mask"] = mask
        L = len(it["ser"][0]) if rng.random() < 0.7 else None
        ser = []
        for z in range(nser):
            ln = L or rng.randint(1, 4)
            if mask[z]:
                ser.append([[rng.choice((0, 1, 3))] * nd if nd == 1 else list(rng.choice(P2)) for _ in range(ln)])
            else:
                ser.append([[rng.choice((50, 60))] * nd for _ in range(ln)])
        it["ser"] = ser
        it["avg"] = [[rng.choice((0, 1, 3))] * nd if nd == 1 else list(rng.choice(P2)) for _ in range(rng.randint(1, 4))]
        it["prob_samples"] = [rng.choice([1, 2, 5])]
        it["maxits"] = [1]
        out.append(it)
    # byte boundary of the bit-packed mask: 9-10 very short series
    for k in range(60 if q else 600):
        it = make(rng, rng.choice([9, 10]), 1, 1, vals=(0, 1, 3))
        it["avg"] = [[rng.choice((0, 1, 3))]]
        out.append(it)
    out = [it for it in out if choices(it) <= MAX_CHOICES]
    for k, it in enumerate(out):
        it["id"] = "c12-%d" % k
    return out


RULE = ("cases: seeded collections of 1-3 series (lengths <= 4, ndim 1-2, equal/unequal lengths, identical-series "
        "families) and 9-10 one-point series (mask byte boundary) x initial average x masks with >= 1 selected series x "
        "window x penalty x inner distance; recorded: the updated average of dba (Python, Python averaging over C "
        "paths), dtw_cc.dba/dba_ndim (list and matrix containers), direct dtw_dba_ptrs/_matrix calls, first step of "
        "dba_loop, the number of loop steps, and the sampled-path variant (nb_prob_samples > 0: range clause only); floats rationalised exactly; TLC accepts a result iff SOME choice of one "
        "optimal path per selected series explains it, and checks range and objective; Act M proves the consequences "
        "for every choice on the model; non-trivial = mask excludes a series or optimal paths not unique or window/penalty")


def run(ctx):
    ctx.rule = RULE
    src = build.py_build()
    # MC_DBA_q carries the invariant SearchAgrees (the search form used on traces decides the declarative
    # Allowed); it is quadratic in the number of choices, so the larger thorough slice checks the theorems only
    for cfg in (["MC_DBA_q.cfg"] if ctx.quick else ["MC_DBA_q.cfg", "MC_DBA_t.cfg"]):
        ctx.log("Act M: %s" % cfg)
        ctx.add_mc(tlc.model_check("MC_DBA", cfg, workers=12))
    return judge(ctx, src, items(ctx))


def judge(ctx, src, its):
    ctx.log("running %d DBA cases" % len(its))
    outs = core.pool_map(src, "harness.dbax", "run_c12", its, chunksize=20)
    records, by_id = [], {}
    for it, o in zip(its, outs):
        if o.get("crashed"):
            o = {"routes": ["PROCESS-CRASH"], "news": [[[0]]], "dns": [-5], "loops": [], "probs": []}
        rec = {"id": it["id"], "kind": "dba", "set": it["set"], "ser": it["ser"], "avg": it["avg"], "mask": it["mask"]}
        rec.update({k: v for k, v in o.items() if k != "id"})
        it["_rec"] = rec
        by_id[it["id"]] = it
        records.append(rec)
        ctx.evaluations += len(rec["routes"]) + len(rec["loops"])
    ctx.log("Act T: TLC judges %d records (%d observations)" % (len(records), ctx.evaluations))
    res = tlc.validate_traces("DBATrace", "DBATrace.cfg", records, chunk=60, parallel=14, canary_fields=["news"],
                              timeout=1800 if ctx.quick else 14400)
    ctx.add_tv(res)
    classify(ctx, by_id, res["fails"])
    ctx.nontrivial = {it["id"] for it in its if (not all(it["mask"])) or it["set"]["w"] or it["set"]["pen"]}
    ctx.samples = [it["_rec"] for it in its[:: max(1, len(its) // 4)]][:4]
    return core.finish(ctx)


def replay(ctx, path):
    rec = json.load(open(path))
    return judge(ctx, build.py_build(), [rec["case"]])
