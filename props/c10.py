"""C10 - identity, non-negativity, symmetry and option monotonicity."""
import json

from harness import dtwcases as dc
from harness import wpsfamily
from harness.wpsfamily import run_records_family
from props.c02 import RECT2, ndim_cases

PID = "C10"
wpsfamily.CRASH["laws"] = {"rel": [["PROCESS-CRASH", "eq", -5, 0]], "base": -5, "routes": ["PROCESS-CRASH"]}


def cases(ctx):
    q = ctx.quick
    sd = ctx.seed
    out = []
    out += dc.slice_values(3, (0, 1, 3), (0, 1, 2, 3), (0, 1), frac=0.12 if q else 1.0, seed=sd, salt="a")
    out += dc.slice_psi(3, (0, 2), (0, 1, 2), pens=(0, 1), frac=0.015 if q else 0.4, seed=sd, salt="b")
    for ms in (1, 2):
        out += dc.slice_values(3, (0, 1, 3), (0, 2), (0, 1), ms=ms, frac=0.06 if q else 1.0, seed=sd, salt="c")
    for inner in ("eu", "cu"):
        out += dc.slice_values(3, (0, 1, 3), (0, 1, 2), (0, 1), inner=inner, frac=0.06 if q else 1.0, seed=sd, salt="d")
    rng = ctx.rng("c10")
    n = 1500 if q else 30000
    out += dc.random_cases(rng, n, 12, (0, 1, 2, 3, 5, 8), inners=("sq", "eu"), pens=(0, 0, 1, 2), mss=(0, 0, 3, 5),
                           psi_prob=0.4)
    out += dc.random_cases(rng, n // 2, 8, (-3, -1, 0, 2), S=2, inners=("sq", "eu", "cu"), pens=(0, 1), mss=(0, 0, 5),
                           psi_prob=0.3)
    out += ndim_cases(rng, n // 3, 6, RECT2, ("sq", "eu"), pens=(0, 1), mss=(0, 4), psi_prob=0.3)
    return dc.with_ids(out, "c10-")


RULE = ("cases: C01 slices plus seeded cases up to length 12 (exact domain), ndim 1-2, three inner distances; per case "
        "and engine (Python, C) the related calls: self distance, swapped series with swapped psi entries (also under max_length_diff at and just below the length difference, and under pruning), window "
        "w+1 / none, each psi entry +1, max_step +1 / none, penalty +1, window=1 vs the Euclidean distance, and the "
        "mirrored entries of a non-triangular distance-matrix block; TLC judges each relation on the recorded values "
        "and the base value against Opt; the laws themselves are model-checked on the definition (Act M, invariant Laws); "
        "non-trivial as in C01")


def run(ctx):
    # band symmetry (what makes DTW symmetric for unequal lengths) for ALL sizes: LayoutProofs.tla BandSymmetric;
    # MC_DTWCore's LayoutBandAgrees ties Layout.tla's band to the one of DTWCore on every instance of the scope
    from harness import tlaps
    ctx.extra["unbounded_proofs"] = tlaps.layout_proofs()
    ctx.log("tlapm LayoutProofs.tla: %s" % ctx.extra["unbounded_proofs"])
    return run_records_family(ctx, cases(ctx), "run_c10", "laws",
                              mc_cfgs=["MC_DTWCore_c10q.cfg"] if ctx.quick else ["MC_DTWCore_c10q.cfg", "MC_DTWCore_c10t.cfg"],
                              rule=RULE)


def replay(ctx, path):
    rec = json.load(open(path))
    return run_records_family(ctx, [rec["case"]], "run_c10", "laws", rule="replay")
