"""C15 - hierarchical clustering: a partition built from monotone, bounded merges."""
import itertools
import json
import os

from harness import build, core, tlc
from harness.dtwfamily import classify

PID = "C15"


def rand_matrix(rng, n, vals):
    return [[(rng.choice(vals) if c > r else -1) for c in range(n)] for r in range(n)]


def items(ctx):
    q = ctx.quick
    rng = ctx.rng("c15")
    out = []
    # all upper-triangular matrices over {1,2,3,inf} for n = 3 (64), sampled for n = 4, 5
    vals = (1, 2, 3, -1)
    mats = []
    for combo in itertools.product(vals, repeat=3):
        m = [[-1] * 3 for _ in range(3)]
        (m[0][1], m[0][2], m[1][2]) = combo
        mats.append((3, m))
    for _ in range(500 if q else 3000):
        n = rng.choice([2, 4, 4, 5, 6])
        mats.append((n, rand_matrix(rng, n, rng.choice([(1, 2, 3, -1), (1, 2, 3, 4, 5), (1, 1, 2), (2, 5, 7, 9, -1)]))))
    for (n, m) in mats:
        m2 = rand_matrix(rng, n, (1, 2, 3, -1))
        fits = []
        for _ in range(rng.randint(1, 4)):
            kind = rng.choice(["hier", "hier", "hier", "tree"])
            fits.append({"kind": kind, "source": "matrix", "matrix": rng.choice([0, 0, 1]),
                         "maxdist": rng.choice([-1, -1, 0, 1, 2, 3]), "swap": rng.random() < 0.3,
                         "order": rng.choice([None, None, "last"]), "reuse": rng.random() < 0.6,
                         "exact": rng.random() < 0.4, "triu_false": rng.random() < 0.25,
                         "tree_maxdist": rng.random() < 0.5})
        finite = all(m[r][c] >= 0 for r in range(n) for c in range(r + 1, n))
        if finite:
            fits.append({"kind": "linkage", "source": "matrix", "matrix": 0, "maxdist": -1,
                         "method": rng.choice(["complete", "single", "average"]), "only_triu": rng.random() < 0.4})
        out.append({"n": n, "matrices": [m, m2], "series": [], "fits": fits})
    # real series through the library's own distance-matrix functions (integer distances: euclidean inner distance)
    for _ in range(200 if q else 1200):
        n = rng.randint(2, 6)
        sers = []
        for _s in range(2):
            L = rng.randint(1, 4)
            sers.append([[[rng.choice((0, 1, 2, 5, 9))] for _ in range(L if rng.random() < 0.5 else rng.randint(1, 4))]
                         for _ in range(n)])
        fits = []
        for _f in range(rng.randint(1, 3)):
            fits.append({"kind": rng.choice(["hier", "hier", "tree", "linkage"]),
                         "source": rng.choice(["dtw", "dtw_fast"]), "matrix": rng.choice([0, 1]),
                         "maxdist": rng.choice([-1, -1, 0, 2, 5]), "swap": False, "order": None,
                         "triu_false": rng.random() < 0.25, "tree_maxdist": rng.random() < 0.5,
                         "reuse": rng.random() < 0.5, "window": rng.choice([0, 0, 2]),
                         "method": "complete", "exact": rng.random() < 0.4, "only_triu": rng.random() < 0.4})
        out.append({"n": n, "matrices": [], "series": sers, "fits": fits})
    for k, it in enumerate(out):
        it["id"] = "c15-%d" % k
    return out


RULE = ("model: the merge loop as a transition system over ALL upper-triangular matrices with values {1,2,3,inf} for "
        "n <= 4 (quick) / 5 and max_dist in {1,2,inf}: partition keyed by member, merges monotone and bounded, progress "
        "unless stuck, single rooted binary tree for finite matrices. implementation: all 64 matrices for n=3, seeded "
        "matrices n=2..6 (ties, duplicates, infinities) fed through dists_fun, and real series through "
        "dtw.distance_matrix(_fast); histories of 1-4 fit calls (Hierarchical with order_hook / side-swapping "
        "merge_hook / max_dist, re-used model objects, HierarchicalTree, LinkageTree with 3 methods); the merge_hook "
        "events and the returned dictionary are replayed by TLC as Merge steps (each must be enabled, the end state "
        "stuck, the dictionary equal to the state), linkage checked as a tree and against SciPy on the condensed vector "
        "in the documented pair order; non-trivial = matrix with a tie or an infinity or max_dist given")


def _canary(rec):
    for f in rec["fits"]:
        if f["kind"] == "hier" and f["events"] and f["events"][0][2] >= 0:
            f["events"][0][2] += 1
            return rec
    return None


def judge(ctx, src, its):
    ctx.log("running %d clustering histories" % len(its))
    outs = core.pool_map(src, "harness.hx", "run_c15", its, chunksize=20,
                         env={"VERIF_ITEM_TIMEOUT": os.environ.get("VERIF_ITEM_TIMEOUT", "30")})
    records, by_id = [], {}
    for it, o in zip(its, outs):
        if o.get("crashed"):
            o = {"fits": [{"route": "PROCESS-CRASH", "kind": "hier", "matrix": [[-1]], "maxdist": -1,
                           "events": [[0, 0, -5]], "result": [], "tree": False, "linkage": [], "condensed": [],
                           "same": False}], "routes": ["PROCESS-CRASH"]}
        rec = {"id": it["id"], "kind": "hier", "n": it["n"]}
        rec.update({k: v for k, v in o.items() if k != "id"})
        it["_rec"] = rec
        by_id[it["id"]] = it
        records.append(rec)
        ctx.evaluations += len(rec["routes"])
    ctx.log("Act T: TLC judges %d records (%d fits)" % (len(records), ctx.evaluations))
    res = tlc.validate_traces("HTrace", "HTrace.cfg", records, chunk=100, parallel=14, canary_fields=[_canary])
    ctx.add_tv(res)
    classify(ctx, by_id, res["fails"])
    ctx.nontrivial = {it["id"] for it in its if it["n"] > 2}
    ctx.samples = [it["_rec"] for it in its[:: max(1, len(its) // 3)]][:3]
    return core.finish(ctx)


def run(ctx):
    ctx.rule = RULE
    src = build.py_build()
    cfg = "MC_Hierarchical_q.cfg" if ctx.quick else "MC_Hierarchical_t.cfg"
    ctx.log("Act M: %s" % cfg)
    ctx.add_mc(tlc.model_check("MC_Hierarchical", cfg, workers=12))
    return judge(ctx, src, items(ctx))


def replay(ctx, path):
    rec = json.load(open(path))
    return judge(ctx, build.py_build(), [rec["case"]])
