"""C09 - LB_Keogh <= DTW <= Euclidean upper bound, same in both engines."""
import json

from harness import dtwcases as dc
from harness import wpsfamily
from harness.wpsfamily import run_records_family
from props.c02 import RECT2, RECT3, ndim_cases

PID = "C09"
wpsfamily.CRASH["bounds"] = {"lb": [-5], "lbroutes": ["PROCESS-CRASH"], "ed": [], "edroutes": [], "ub": [],
                             "ubroutes": [], "dtw": -5, "dtw0": -5, "routes": ["PROCESS-CRASH"]}


def cases(ctx):
    q = ctx.quick
    sd = ctx.seed
    out = []
    for inner in ("sq", "eu"):
        out += dc.slice_values(3, (-3, -1, 0, 2), (0, 1, 2, 3), (0, 1, 2), inner=inner, frac=0.1 if q else 1.0,
                               seed=sd, salt="a")
        out += dc.slice_values(4, (-3, -1, 0, 2), (0, 1, 2, 3, 4), (0,), inner=inner, frac=0.005 if q else 0.2,
                               seed=sd, salt="b")
        out += dc.slice_values(3, (-3, -1, 0, 2), (0, 2), (0, 1), inner=inner, S=2, frac=0.1 if q else 1.0,
                               seed=sd, salt="c")
    rng = ctx.rng("c09")
    n = 3000 if q else 60000
    out += dc.random_cases(rng, n, 9, (-5, -3, -1, 0, 2, 4), inners=("sq", "eu"), pens=(0, 0, 1, 3), psi_prob=0.0)
    out += dc.random_cases(rng, n // 2, 9, (-7, -4, -2, -1), S=2, inners=("sq", "eu"), pens=(0, 1), psi_prob=0.0)
    # max_length_diff: the bound of a distance that is infinite by the length limit is infinite in both engines
    out += dc.random_cases(rng, n // 4, 7, (-3, -1, 0, 2), inners=("sq", "eu"), pens=(0, 1), mlds=(0 + 1, 2, -1),
                           psi_prob=0.0)
    out += ndim_cases(rng, n // 3, 6, RECT2, ("sq", "eu"), pens=(0, 1), psi_prob=0.0)
    out += ndim_cases(rng, n // 6, 6, RECT2, ("sq", "eu"), pens=(0, 1), mlds=(1, 2, 3, -1), psi_prob=0.0)
    out += ndim_cases(rng, n // 3, 5, RECT3, ("sq", "eu"), pens=(0, 1), psi_prob=0.0)
    neg3 = [(-3, -4, 0), (0, 0, 0), (-3, -4, -12), (0, 0, -12)]
    out += ndim_cases(rng, n // 4, 5, neg3, ("sq", "eu"), pens=(0,), psi_prob=0.0)
    return dc.with_ids(out, "c09-")


RULE = ("cases: signed alphabets (all-negative windows included), equal/unequal lengths, all windows, both inner "
        "distances, ndim 1-3; per case LB_Keogh through 5 routes, the Euclidean distance through 5-8 routes (Python, "
        "Cython, direct C calls; ndim variants), only_ub through both engines; TLC judges each against LBKeogh/ED of "
        "the specification and the sandwich on the observed numbers; Act M proves LB <= Opt <= ED on the model; "
        "non-trivial = unequal lengths or band cut or negative values")


def run(ctx):
    return run_records_family(ctx, cases(ctx), "run_c09", "bounds",
                              mc_cfgs=["MC_DTWCore_c09q.cfg"] if ctx.quick else ["MC_DTWCore_c09q.cfg", "MC_DTWCore_c09t.cfg"],
                              rule=RULE)


def replay(ctx, path):
    rec = json.load(open(path))
    return run_records_family(ctx, [rec["case"]], "run_c09", "bounds", rule="replay")
