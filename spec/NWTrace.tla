-------------------------------- MODULE NWTrace --------------------------------
(* Act T for Needleman-Wunsch (C17) *)
EXTENDS NW, Json, IOUtils
T == JsonDeserialize(IOEnv.TRACE_FILE)
N == Len(T)
ChunkSize == 20
NChunks == (N + ChunkSize - 1) \div ChunkSize
VARIABLES lvl, ch, k
vars == <<lvl, ch, k>>
Init == lvl = 0 /\ ch = 0 /\ k = 0
Next == \/ /\ lvl = 0 /\ \E x \in 1..NChunks : ch' = x
           /\ lvl' = 1 /\ k' = 0
        \/ /\ lvl = 1 /\ \E x \in ((ch - 1) * ChunkSize + 1)..Min2(ch * ChunkSize, N) : k' = x
           /\ lvl' = 2 /\ ch' = ch
Spec == Init /\ [][Next]_vars

JudgeNW(rec) ==
    LET M == DPMatrix(rec.sub, rec.gap, rec.s1, rec.s2)
        best == M[Len(rec.s1) + 1][Len(rec.s2) + 1]
        cl == [q \in 1..Len(rec.aligns) |->
                 AlignmentClause(rec.sub, rec.gap, rec.s1, rec.s2, rec.aligns[q].a1, rec.aligns[q].a2, rec.value)]
        bad == {q \in 1..Len(rec.aligns) : cl[q] # "ok"}
    IN IF rec.value # best THEN Fail(rec.id, rec.route \o ":value-not-the-optimum")
       ELSE IF rec.scores # <<>> /\ rec.scores # M THEN Fail(rec.id, rec.route \o ":score-matrix")
       ELSE IF bad # {} THEN Fail(rec.id, rec.aligns[SetMin(bad)].route \o ":" \o cl[SetMin(bad)])
       ELSE TRUE

Verdict == lvl = 2 => JudgeNW(T[k])
=============================================================================
