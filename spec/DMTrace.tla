------------------------------- MODULE DMTrace -------------------------------
(***************************************************************************)
(* Act T for distance matrices (C06, C07): a record holds a collection of  *)
(* series, settings, a block and everything the implementation returned    *)
(* for it (lengths, index lists, compact arrays through several routes,    *)
(* square forms, condensed indices, and for the parallel routines the      *)
(* per-thread write events).  TLC judges all of it against DistMatrix and  *)
(* DTWCore.                                                                *)
(***************************************************************************)
EXTENDS DistMatrix, Json, IOUtils

T == JsonDeserialize(IOEnv.TRACE_FILE)
N == Len(T)
ChunkSize == 20
NChunks == (N + ChunkSize - 1) \div ChunkSize

VARIABLES lvl, ch, k
vars == <<lvl, ch, k>>
Init == lvl = 0 /\ ch = 0 /\ k = 0
Next == \/ /\ lvl = 0 /\ \E x \in 1..NChunks : ch' = x
           /\ lvl' = 1 /\ k' = 0
        \/ /\ lvl = 1 /\ \E x \in ((ch - 1) * ChunkSize + 1)..Min2(ch * ChunkSize, N) : k' = x
           /\ lvl' = 2 /\ ch' = ch
Spec == Init /\ [][Next]_vars

Enc(v) == IF IsInf(v) THEN -1 ELSE v

Blk(rec) == [rb |-> rec.blk[1], re |-> rec.blk[2], cb |-> rec.blk[3], ce |-> rec.blk[4], triu |-> rec.triu]
CaseOf(rec, r, c) == [rec.set EXCEPT !.s1 = rec.ser[r + 1], !.s2 = rec.ser[c + 1]]
PairDist(rec, p) == Enc(DistSpec(CaseOf(rec, p[1], p[2])))

\* expected compact result
Expected(rec) == LET P == Pairs(Blk(rec)) IN [q \in 1..Len(P) |-> PairDist(rec, P[q])]

JudgeDM(rec) ==
    LET b == Blk(rec)
        P == Pairs(b)
        E == [q \in 1..Len(P) |-> PairDist(rec, P[q])]
        badlen == {q \in 1..Len(rec.lens) : rec.lens[q][2] # Len(P)}
        badidx == {q \in 1..Len(rec.idxs) :
                     ~ /\ Len(rec.idxs[q].r) = Len(P) /\ Len(rec.idxs[q].c) = Len(P)
                       /\ \A z \in 1..Len(P) : rec.idxs[q].r[z] = P[z][1] /\ rec.idxs[q].c[z] = P[z][2]}
        badcomp == {q \in 1..Len(rec.compact) : rec.compact[q].vals # E}
        badsq == {q \in 1..Len(rec.square) :
                    LET m == rec.square[q].mat IN
                    ~ /\ Len(m) = rec.n
                      /\ \A r \in 0..(rec.n - 1) :
                           /\ Len(m[r + 1]) = rec.n
                           /\ \A c \in 0..(rec.n - 1) :
                                m[r + 1][c + 1] = SquareCell(b, rec.n, E, rec.square[q].onlytriu, r, c)}
        badai == {q \in 1..Len(rec.aidx) :
                    rec.aidx[q][3] # CondensedIndex(rec.aidx[q][1], rec.aidx[q][2], rec.n)}
        \* per-thread write events of a parallel routine: every selected pair exactly once, to its
        \* layout slot, with the serial value; no order is assumed
        badev == {q \in 1..Len(rec.events) :
                    LET ev == rec.events[q].ev
                        slots == {ev[z][1] : z \in 1..Len(ev)}
                    IN ~ /\ Len(ev) = Len(P)
                         /\ slots = 0..(Len(P) - 1)
                         /\ \A z \in 1..Len(ev) :
                              /\ ev[z][1] = PosOf(b, <<ev[z][2], ev[z][3]>>)
                              /\ <<ev[z][2], ev[z][3]>> \in Selected(b)
                              /\ ev[z][4] = PairDist(rec, <<ev[z][2], ev[z][3]>>)}
        \* the OpenMP row plan computed by the real dtw_distances_prepare: on every row that writes at
        \* least one slot it must be the plan of the specification
        badplan == {q \in 1..Len(rec.plans) :
                      LET pl == rec.plans[q] sp == Plan(b) IN
                      ~ /\ pl.length = Len(P)
                        /\ b.triu => /\ Len(pl.cbs) = b.re - b.rb /\ Len(pl.rls) = b.re - b.rb
                                      /\ \A z \in 1..(b.re - b.rb) :
                                            (pl.cbs[z] < b.ce) => (pl.cbs[z] = sp.cbs[z] /\ pl.rls[z] = sp.rls[z])
                                      /\ \A y \in 1..(b.re - b.rb) : (pl.cbs[y] >= b.ce) = (sp.cbs[y] >= b.ce)}
    IN IF badlen # {} THEN Fail(rec.id, rec.lens[SetMin(badlen)][1])
       ELSE IF badplan # {} THEN Fail(rec.id, rec.plans[SetMin(badplan)].route)
       ELSE IF badidx # {} THEN Fail(rec.id, rec.idxs[SetMin(badidx)].route)
       ELSE IF badcomp # {} THEN Fail(rec.id, rec.compact[SetMin(badcomp)].route)
       ELSE IF badsq # {} THEN Fail(rec.id, rec.square[SetMin(badsq)].route)
       ELSE IF badai # {} THEN Fail(rec.id, "distance_array_index")
       ELSE IF badev # {} THEN Fail(rec.id, rec.events[SetMin(badev)].route)
       ELSE TRUE

Verdict == lvl = 2 => JudgeDM(T[k])
=============================================================================
