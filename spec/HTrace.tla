-------------------------------- MODULE HTrace --------------------------------
(***************************************************************************)
(* Act T for hierarchical clustering (C15).  A record holds the distance   *)
(* matrix the model object worked on and, per fit call, the merge_hook     *)
(* events in order and the returned dictionary.  The trace spec replays    *)
(* the events as Merge steps of Hierarchical.tla: every event must be an   *)
(* enabled merge, the final state must be stuck, and the returned          *)
(* dictionary must be the cluster state reached.                           *)
(***************************************************************************)
EXTENDS Hierarchical, DistMatrix, Json, IOUtils

T == JsonDeserialize(IOEnv.TRACE_FILE)
N == Len(T)
ChunkSize == 20
NChunks == (N + ChunkSize - 1) \div ChunkSize
VARIABLES lvl, ch, k
vars == <<lvl, ch, k>>
Init == lvl = 0 /\ ch = 0 /\ k = 0
Next == \/ /\ lvl = 0 /\ \E x \in 1..NChunks : ch' = x
           /\ lvl' = 1 /\ k' = 0
        \/ /\ lvl = 1 /\ \E x \in ((ch - 1) * ChunkSize + 1)..Min2(ch * ChunkSize, N) : k' = x
           /\ lvl' = 2 /\ ch' = ch
Spec == Init /\ [][Next]_vars

Dec(x) == IF x = -1 THEN Inf ELSE x
\* matrix given as rows (upper triangle used), -1 = infinity
Dfun(m, n) == [p \in AlivePairs(0..(n - 1)) |-> Dec(m[p[1] + 1][p[2] + 1])]

\* replay events ev[i..] from state (alive, cl); returns the first problem or the final state
RECURSIVE Replay(_, _, _, _, _, _)
Replay(D, maxd, alive, cl, ev, i) ==
    IF i > Len(ev) THEN [ok |-> TRUE, alive |-> alive, cl |-> cl, at |-> 0]
    ELSE LET from == ev[i][1] to == ev[i][2] d == Dec(ev[i][3])
         IN IF ~MergeEnabled(D, alive, maxd, from, to, d)
            THEN [ok |-> FALSE, alive |-> alive, cl |-> cl, at |-> i]
            ELSE Replay(D, maxd, alive \ {from}, MergeClusters(cl, from, to), ev, i + 1)

FitClause(rec, f) ==
    LET n == rec.n
        D == Dfun(f.matrix, n)
        maxd == Dec(f.maxdist)
        r == Replay(D, maxd, 0..(n - 1), [x \in 0..(n - 1) |-> {x}], f.events, 1)
        res == [x \in {f.result[q][1] : q \in 1..Len(f.result)} |->
                  LET q == CHOOSE q \in 1..Len(f.result) : f.result[q][1] = x
                  IN {f.result[q][2][z] : z \in 1..Len(f.result[q][2])}]
        dists == [q \in 1..Len(f.events) |-> Dec(f.events[q][3])]
    IN IF ~r.ok THEN "event-not-an-enabled-merge"
       ELSE IF ~Stuck(D, r.alive, maxd) THEN "stopped-although-a-merge-within-max_dist-remains"
       ELSE IF ~IsPartition(res, n) THEN "result-not-a-partition-keyed-by-member"
       ELSE IF DOMAIN res # r.alive \/ \E x \in r.alive : res[x] # r.cl[x] THEN "result-differs-from-merges"
       ELSE IF \E q \in 1..(Len(dists) - 1) : dists[q] > dists[q + 1] THEN "merges-not-monotone"
       \* a single rooted tree is promised for finite matrices; otherwise a forest (no node is a child twice)
       ELSE IF f.tree /\ (\A p \in DOMAIN D : ~IsInf(D[p])) /\ ~IsTree(f.linkage, n)
            THEN "linkage-not-a-single-rooted-binary-tree"
       ELSE IF f.tree /\ \E x \in 0..(2 * n - 2) :
                 Cardinality({q \in 1..Len(f.linkage) : f.linkage[q][1] = x})
                   + Cardinality({q \in 1..Len(f.linkage) : f.linkage[q][2] = x}) > 1
            THEN "linkage-node-is-a-child-twice"
       ELSE IF f.tree /\ \E q \in 1..Len(f.linkage) : Dec(f.linkage[q][3]) # dists[q] THEN "linkage-distances"
       ELSE "ok"

\* the SciPy-backed variant: condensed vector in the documented pair order, linkage equal to SciPy's
LinkClause(rec, f) ==
    LET n == rec.n
        D == Dfun(f.matrix, n)
        P == Pairs(NoBlock(n))
    IN IF Len(f.condensed) # Len(P) THEN "condensed-length"
       ELSE IF \E q \in 1..Len(P) : Dec(f.condensed[q]) # D[P[q]] THEN "condensed-order"
       ELSE IF ~f.same THEN "differs-from-scipy"
       ELSE "ok"

JudgeH(rec) ==
    LET cl == [q \in 1..Len(rec.fits) |->
                 IF rec.fits[q].kind = "linkage" THEN LinkClause(rec, rec.fits[q]) ELSE FitClause(rec, rec.fits[q])]
        bad == {q \in 1..Len(rec.fits) : cl[q] # "ok"}
    IN IF bad = {} THEN TRUE ELSE Fail(rec.id, rec.fits[SetMin(bad)].route \o ":" \o cl[SetMin(bad)])

Verdict == lvl = 2 => JudgeH(T[k])
=============================================================================
