--------------------------------- MODULE DBA ---------------------------------
(***************************************************************************)
(* DTW Barycenter Averaging: one update step and the iterated loop.        *)
(*                                                                         *)
(* Declarative half: for every selected series choose ONE optimal warping  *)
(* path between the current average and that series; the new average at    *)
(* position i is the arithmetic mean of all points aligned to i.  Which    *)
(* optimal path is used is not fixed (the engines may differ on ties), so  *)
(* a result is allowed iff SOME choice of optimal paths explains it.       *)
(* Rationals: a new average is given as integers at scale dn (value/dn).   *)
(***************************************************************************)
EXTENDS DTWCore

\* case for aligning average a with series s under the settings template set
AlignCase(set, a, s) == [set EXCEPT !.s1 = a, !.s2 = s]

OptimalPaths(c) == LET o == Opt(c) IN {p \in AllPaths(c) : PathCost(c, p) = o}

Selected(mask) == {k \in 1..Len(mask) : mask[k]}

\* points of series s aligned to average position i (0-based) by path p, as a sequence of indices
AlignedTo(p, i) == {q \in 1..Len(p) : p[q][1] = i}

\* sum over the selected series of coordinate d of the points aligned to position i, and their number
SumAt(ser, choice, sel, i, d) ==
    SumSeq([z \in 1..Cardinality(sel) |->
              LET k == CHOOSE k \in sel : Cardinality({x \in sel : x < k}) = z - 1
                  p == choice[k]
              IN SumSeq([q \in 1..Len(p) |-> IF p[q][1] = i THEN ser[k][p[q][2] + 1][d] ELSE 0])])
CountAt(choice, sel, i) ==
    SumSeq([z \in 1..Cardinality(sel) |->
              LET k == CHOOSE k \in sel : Cardinality({x \in sel : x < k}) = z - 1
              IN Cardinality(AlignedTo(choice[k], i))])

\* new (integers at scale dn) is the result of averaging along the chosen paths
Explains(ser, avg, sel, choice, new, dn) ==
    \A i \in 0..(Len(avg) - 1) : \A d \in 1..Len(avg[1]) :
        LET cnt == CountAt(choice, sel, i)
        IN cnt > 0 /\ new[i + 1][d] * cnt = dn * SumAt(ser, choice, sel, i, d)

Choices(set, ser, avg, sel) == [sel -> UNION {OptimalPaths(AlignCase(set, avg, ser[k])) : k \in sel}]
ValidChoice(set, ser, avg, sel, ch) == \A k \in sel : ch[k] \in OptimalPaths(AlignCase(set, avg, ser[k]))

Allowed(set, ser, avg, mask, new, dn) ==
    LET sel == Selected(mask)
    IN /\ Len(new) = Len(avg)
       /\ \E ch \in Choices(set, ser, avg, sel) :
            ValidChoice(set, ser, avg, sel, ch) /\ Explains(ser, avg, sel, ch, new, dn)

\* The same predicate as a search (what the trace specification evaluates): the series are taken one by one,
\* one optimal path each, accumulating per position the number of aligned points and their coordinate sums.
\* It visits at most the PRODUCT of the per-series numbers of optimal paths, where the function space Choices
\* has (their sum)^|sel| elements.  MC_DBA checks AllowedSearch = Allowed on its whole slice.
PathCount(p, n) == [i \in 1..n |-> Cardinality({q \in 1..Len(p) : p[q][1] = i - 1})]
PathSums(p, s, n, nd) ==
    [i \in 1..n |-> [d \in 1..nd |-> SumSeq([q \in 1..Len(p) |-> IF p[q][1] = i - 1 THEN s[p[q][2] + 1][d] ELSE 0])]]
RECURSIVE SearchFrom(_, _, _, _, _, _, _, _)
SearchFrom(ops, ser, todo, cnt, sums, new, dn, nd) ==
    IF todo = {}
    THEN \A i \in 1..Len(cnt) : \A d \in 1..nd : cnt[i] > 0 /\ new[i][d] * cnt[i] = dn * sums[i][d]
    ELSE LET k == CHOOSE x \in todo : \A y \in todo : x <= y
             n == Len(cnt)
             opk == (CHOOSE pr \in ops : pr[1] = k)[2]
         IN \E p \in opk :
              LET pc == PathCount(p, n)
                  ps == PathSums(p, ser[k], n, nd)
              IN SearchFrom(ops, ser, todo \ {k}, [i \in 1..n |-> cnt[i] + pc[i]],
                            [i \in 1..n |-> [d \in 1..nd |-> sums[i][d] + ps[i][d]]], new, dn, nd)
AllowedSearch(set, ser, avg, mask, new, dn) ==
    LET sel == Selected(mask)
        n == Len(avg)
        nd == Len(avg[1])
        \* a set of pairs: built once (a function constructor would be re-evaluated at every application)
        ops == {<<k, OptimalPaths(AlignCase(set, avg, ser[k]))>> : k \in sel}
    IN /\ Len(new) = n
       /\ \A i \in 1..n : Len(new[i]) = nd
       /\ SearchFrom(ops, ser, sel, [i \in 1..n |-> 0], [i \in 1..n |-> [d \in 1..nd |-> 0]], new, dn, nd)

\* objective: sum of (internal-domain, i.e. squared) DTW costs from an average to the selected series
Scale(s, f) == [q \in 1..Len(s) |-> [d \in 1..Len(s[q]) |-> s[q][d] * f]]
Objective(set, ser, a, sel, f) ==
    SumSeq([z \in 1..Cardinality(sel) |->
              LET k == CHOOSE k \in sel : Cardinality({x \in sel : x < k}) = z - 1
              IN Opt(AlignCase([set EXCEPT !.pen = set.pen * f], a, Scale(ser[k], f)))])

\* consequences stated by the property (checked by TLC as theorems of the definition in MC_DBA, and
\* on recorded results in DBATrace)
InRange(ser, sel, new, dn) ==
    \A i \in 1..Len(new) : \A d \in 1..Len(new[i]) :
        LET vals == UNION {{ser[k][q][d] : q \in 1..Len(ser[k])} : k \in sel}
        IN new[i][d] >= dn * SetMin(vals) /\ new[i][d] <= dn * SetMax(vals)
NotWorse(set, ser, avg, sel, new, dn) ==
    Objective(set, ser, new, sel, dn) <= dn * dn * Objective(set, ser, avg, sel, 1)

\* the average produced by a choice of paths, at the common scale dn = product of the counts
RECURSIVE ProdSeq(_)
ProdSeq(q) == IF q = <<>> THEN 1 ELSE Head(q) * ProdSeq(Tail(q))
ScaleOf(avg, choice, sel) == ProdSeq([i \in 1..Len(avg) |-> CountAt(choice, sel, i - 1)])
NewOf(ser, avg, choice, sel) ==
    LET dn == ScaleOf(avg, choice, sel)
    IN [i \in 1..Len(avg) |-> [d \in 1..Len(avg[1]) |->
            (dn \div CountAt(choice, sel, i - 1)) * SumAt(ser, choice, sel, i - 1, d)]]
=============================================================================
