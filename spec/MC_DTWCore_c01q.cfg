\* C01 quick (a): declarative path sets vs recurrence; psi 4-tuples with entries <= 2, windows, penalty;
\* binary alphabet, lengths <= 3
SPECIFICATION Spec
CONSTANTS
  MaxLen = 3
  Vals = {0, 2}
  Inners = {"sq"}
  Windows = {0, 1, 2}
  Pens = {0, 1}
  MaxSteps = {0}
  MaxDists = {0}
  MLDs = {99}
  PsiMax = 2
  TinyLen = 4
INVARIANT CellwiseOptimal
INVARIANT DistanceOptimal
INVARIANT EnumerationSound
CHECK_DEADLOCK FALSE
