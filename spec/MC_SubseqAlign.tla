---------------------------- MODULE MC_SubseqAlign ----------------------------
(* Act M: the last row of the fully relaxed matrix is the minimum over all start points *)
EXTENDS SubseqAlign
CONSTANTS MaxQ, MaxS, Vals, Pens
VARIABLES q, s, set
vars == <<q, s, set>>
Template == [s1 |-> <<>>, s2 |-> <<>>, inner |-> "sq", w |-> 0, pen |-> 0, ms |-> 0, md |-> 0, mld |-> -1,
             psi |-> <<0, 0, 0, 0>>]
Ser(n) == [1..n -> {<<v>> : v \in Vals}]
Init == q = <<>> /\ s = <<>> /\ set = Template
Next == /\ q = <<>>
        /\ \E a \in 1..MaxQ, b \in 1..MaxS, pen \in Pens : \E qq \in Ser(a), ss \in Ser(b) :
              q' = qq /\ s' = ss /\ set' = [Template EXCEPT !.pen = pen]
Spec == Init /\ [][Next]_vars

MatchingFunctionIsMinOverStarts ==
    q # <<>> =>
      LET M == OptMatrix(SACase(set, q, s))
      IN \A e \in 0..(Len(s) - 1) : MatchCostAt(M, q, e) = MatchCostDecl(set, q, s, e)
=============================================================================
