----------------------------- MODULE ParallelDM -----------------------------
(***************************************************************************)
(* The OpenMP "parallel for" over the rows of a distance-matrix block      *)
(* (dd_dtw_openmp.c, six functions with the same loop), and the            *)
(* multiprocessing branch (Pool.map over the list of pairs).               *)
(*                                                                         *)
(* NThreads threads repeatedly grab any row index that has not been handed *)
(* out yet (this subsumes static, dynamic and guided schedules with any    *)
(* chunk size, and more threads than rows) and execute the loop body       *)
(*     r = rb + r_i;  c_i = 0;  c = first column of the row;               *)
(*     for (; c < ce; c++) { output[slot(r_i, c_i)] = dist(r, c); c_i++; } *)
(* one assignment per step, so that every interleaving of the threads'     *)
(* reads and writes is explored.                                           *)
(*                                                                         *)
(* SharedVars is the set of scalars of the loop body that are NOT private  *)
(* to a thread.  The harness derives it from the pragma and the            *)
(* declarations in the source of each function; with SharedVars = {} TLC   *)
(* proves schedule independence, with e.g. {"c"} it exhibits the lost      *)
(* update (sensitivity self-test).                                         *)
(***************************************************************************)
EXTENDS DistMatrix

CONSTANTS MaxN,        \* number of series
          NThreads,
          SharedVars   \* subset of {"r", "c", "ci"}

Threads == 1..NThreads
Unset == <<-1, -1>>

VARIABLES n, b,        \* collection size and block (chosen in the first step)
          todo,        \* row indices not handed out yet
          pc,          \* per thread: "idle", "r", "ci", "c", "test", "write", "incci", "incc"
          ri,          \* per thread: the loop variable r_i (always private in OpenMP)
          loc,         \* per thread private copies [r, c, ci]
          sh,          \* shared copies [r, c, ci] (used for the variables in SharedVars)
          out,         \* slot -> pair written there (Unset if none)
          writes       \* slot -> number of writes
vars == <<n, b, todo, pc, ri, loc, sh, out, writes>>

Zero == [r |-> 0, c |-> 0, ci |-> 0]

Init == /\ n = 0 /\ b = NoBlock(0) /\ todo = {} /\ pc = [t \in Threads |-> "idle"]
        /\ ri = [t \in Threads |-> 0] /\ loc = [t \in Threads |-> Zero] /\ sh = Zero
        /\ out = <<>> /\ writes = <<>>

Setup ==
    /\ n = 0
    /\ \E m \in 1..MaxN : \E rb \in 0..(m - 1), cb \in 0..(m - 1) :
         \E re \in (rb + 1)..m, ce \in (cb + 1)..m, t \in BOOLEAN :
           LET bb == [rb |-> rb, re |-> re, cb |-> cb, ce |-> ce, triu |-> t]
           IN /\ n' = m /\ b' = bb
              /\ todo' = 0..(re - rb - 1)
              /\ out' = [s \in 0..(Length(bb) - 1) |-> Unset]
              /\ writes' = [s \in 0..(Length(bb) - 1) |-> 0]
    /\ UNCHANGED <<pc, ri, loc, sh>>

Get(t, v) == IF v \in SharedVars THEN sh[v] ELSE loc[t][v]
\* assignment v := x by thread t
Put(t, v, x) == IF v \in SharedVars
                THEN /\ sh' = [sh EXCEPT ![v] = x] /\ UNCHANGED loc
                ELSE /\ loc' = [loc EXCEPT ![t][v] = x] /\ UNCHANGED sh
Goto(t, l) == pc' = [pc EXCEPT ![t] = l]

plan == Plan(b)

Grab(t) == /\ n > 0 /\ pc[t] = "idle" /\ todo # {}
           /\ \E x \in todo : /\ ri' = [ri EXCEPT ![t] = x] /\ todo' = todo \ {x}
           /\ Goto(t, "r")
           /\ UNCHANGED <<n, b, loc, sh, out, writes>>
SetR(t) == /\ pc[t] = "r" /\ Put(t, "r", b.rb + ri[t]) /\ Goto(t, "ci")
           /\ UNCHANGED <<n, b, todo, ri, out, writes>>
SetCi(t) == /\ pc[t] = "ci" /\ Put(t, "ci", 0) /\ Goto(t, "c")
            /\ UNCHANGED <<n, b, todo, ri, out, writes>>
SetC(t) == /\ pc[t] = "c" /\ Put(t, "c", OmpFirstCol(b, plan, ri[t])) /\ Goto(t, "test")
           /\ UNCHANGED <<n, b, todo, ri, out, writes>>
Test(t) == /\ pc[t] = "test"
           /\ IF Get(t, "c") < b.ce THEN Goto(t, "write") ELSE Goto(t, "idle")
           /\ UNCHANGED <<n, b, todo, ri, loc, sh, out, writes>>
\* value = dtw_distance(series[r], series[c]) is represented by the pair itself
Write(t) ==
    /\ pc[t] = "write"
    /\ LET slot == IF b.triu THEN plan.rls[ri[t] + 1] + Get(t, "ci")
                   ELSE (b.ce - b.cb) * ri[t] + Get(t, "ci")
       IN IF slot \in DOMAIN out
          THEN /\ out' = [out EXCEPT ![slot] = <<Get(t, "r"), Get(t, "c")>>]
               /\ writes' = [writes EXCEPT ![slot] = @ + 1]
          ELSE /\ out' = out /\ writes' = [s \in DOMAIN writes \cup {-1} |-> IF s = -1 THEN 1 ELSE writes[s]]
    /\ Goto(t, "incci")
    /\ UNCHANGED <<n, b, todo, ri, loc, sh>>
IncCi(t) == /\ pc[t] = "incci" /\ Put(t, "ci", Get(t, "ci") + 1) /\ Goto(t, "incc")
            /\ UNCHANGED <<n, b, todo, ri, out, writes>>
IncC(t) == /\ pc[t] = "incc" /\ Put(t, "c", Get(t, "c") + 1) /\ Goto(t, "test")
           /\ UNCHANGED <<n, b, todo, ri, out, writes>>

Next == Setup \/ \E t \in Threads :
            Grab(t) \/ SetR(t) \/ SetCi(t) \/ SetC(t) \/ Test(t) \/ Write(t) \/ IncCi(t) \/ IncC(t)
Spec == Init /\ [][Next]_vars

----------------------------------------------------------------------------
Finished == n > 0 /\ todo = {} /\ \A t \in Threads : pc[t] = "idle"

\* every write lands inside the output array (slot -1 records an out-of-bounds write)
InBounds == -1 \notin DOMAIN writes
\* no slot is written twice
NoDoubleWrite == \A s \in DOMAIN writes : writes[s] <= 1
\* when all threads are done the output equals the serial result, whatever the schedule was
SerialEquivalent ==
    Finished => LET P == Pairs(b) IN \A s \in DOMAIN out : out[s] = P[s + 1]

----------------------------------------------------------------------------
(* The multiprocessing branch: the list of pairs is mapped over a pool; tasks complete in any
   order and results are placed by task index (Pool.map).  PlaceByCompletion models the
   imap_unordered mistake for the self-test. *)
=============================================================================
