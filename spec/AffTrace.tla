------------------------------- MODULE AffTrace -------------------------------
(* Act T for the affinity matrix and local-concurrence matches (C18) *)
EXTENDS Affinity, Json, IOUtils
T == JsonDeserialize(IOEnv.TRACE_FILE)
N == Len(T)
ChunkSize == 20
NChunks == (N + ChunkSize - 1) \div ChunkSize
VARIABLES lvl, ch, k
vars == <<lvl, ch, k>>
Init == lvl = 0 /\ ch = 0 /\ k = 0
Next == \/ /\ lvl = 0 /\ \E x \in 1..NChunks : ch' = x
           /\ lvl' = 1 /\ k' = 0
        \/ /\ lvl = 1 /\ \E x \in ((ch - 1) * ChunkSize + 1)..Min2(ch * ChunkSize, N) : k' = x
           /\ lvl' = 2 /\ ch' = ch
Spec == Init /\ [][Next]_vars

\* observed cells: scaled integers, -1 = -infinity (excluded), -2 = not representable
EncA(v) == IF IsNegInf(v) THEN -1 ELSE v
MatOK(c, M, got) ==
    /\ Len(got) = AL1(c) + 1
    /\ \A i \in 0..AL1(c) :
         /\ Len(got[i + 1]) = AL2(c) + 1
         /\ \A j \in 0..AL2(c) :
              \/ got[i + 1][j + 1] = EncA(M[i + 1][j + 1])
              \* border cells that no in-band cell reads are not stored by the compact layout
              \/ (i = 0 \/ j = 0) /\ got[i + 1][j + 1] \in {0, -1}
                   /\ ~(i >= 1 /\ (AInBand(c, i - 1, 0) \/ (i < AL1(c) /\ AInBand(c, i, 0))))
                   /\ ~(j >= 1 /\ (AInBand(c, 0, j - 1) \/ (j < AL2(c) /\ AInBand(c, 0, j))))

JudgeAff(rec) ==
    LET c == rec.c
        M == AffMatrix(c)
        badm == {r \in 1..Len(rec.mats) : ~MatOK(c, M, rec.mats[r].mat)}
        \* local_concurrences has no psi option: its histories are judged on the matrix without relaxation
        c0 == [c EXCEPT !.psi = <<0, 0, 0, 0>>]
        M0 == AffMatrix(c0)
        badh == {r \in 1..Len(rec.hists) : ~HistoryOK(c0, M0, rec.hists[r].matches)}
    IN IF ~ExactRegime(c) THEN Fail(rec.id, "harness:case-outside-exact-regime")
       ELSE IF badm # {} THEN Fail(rec.id, rec.mats[SetMin(badm)].route)
       ELSE IF badh # {} THEN Fail(rec.id, rec.hists[SetMin(badh)].route)
       ELSE TRUE

Verdict == lvl = 2 => JudgeAff(T[k])
=============================================================================
