------------------------------ MODULE LayoutTrace ------------------------------
(***************************************************************************)
(* Extension X03: binds the index arithmetic of Layout.tla to the running  *)
(* pure-Python dtw.distance.  The harness replaces the `array' module seen  *)
(* by dtaidistance.dtw with a recording one, so that every subscript the   *)
(* kernel applies to its rolling buffer is observed (no change to /repo).  *)
(* A record holds the buffer size and the complete sequence of READ        *)
(* subscripts of one call (psi = 0, no max_step / max_dist / pruning: every *)
(* in-band cell is processed).  The specification predicts that sequence:  *)
(* for each row i and each column j of JStart..JEnd-1 the reads            *)
(*   diagonal, up (previous row's half), left, the cell itself (own half)  *)
(* and finally the corner cell.  LayoutProofs.tla proves for all sizes     *)
(* that these subscripts stay inside their half of the buffer.             *)
(***************************************************************************)
EXTENDS Layout, Sequences, TLC, Json, IOUtils

T == JsonDeserialize(IOEnv.TRACE_FILE)
N == Len(T)
ChunkSize == 50
NChunks == (N + ChunkSize - 1) \div ChunkSize
VARIABLES lvl, ch, k
vars == <<lvl, ch, k>>
Init == lvl = 0 /\ ch = 0 /\ k = 0
Next == \/ /\ lvl = 0 /\ \E q \in 1..NChunks : ch' = q
           /\ lvl' = 1 /\ k' = 0
        \/ /\ lvl = 1 /\ \E q \in ((ch - 1) * ChunkSize + 1)..Mn(ch * ChunkSize, N) : k' = q
           /\ lvl' = 2 /\ ch' = ch
Spec == Init /\ [][Next]_vars

Fail(id, clause) == PrintT(<<"VERDICT-FAIL", id, clause>>)

\* halves of the buffer used by row i: the row writes into half (i+1) mod 2 and reads the previous row from i mod 2
Own(i) == (i + 1) % 2
Prev(i) == i % 2

RECURSIVE CellReads(_, _, _, _, _, _, _)
CellReads(i, j, jend, l1, l2, w, len) ==
    IF j >= jend THEN <<>>
    ELSE <<Prev(i) * len + RollDiag(i, j, l1, l2, w), Prev(i) * len + RollUp(i, j, l1, l2, w),
           Own(i) * len + RollLeft(i, j, l1, l2, w), Own(i) * len + RollWrite(i, j, l1, l2, w)>>
         \o CellReads(i, j + 1, jend, l1, l2, w, len)

RECURSIVE RowReads(_, _, _, _, _)
RowReads(i, l1, l2, w, len) ==
    IF i >= l1 THEN <<>>
    ELSE CellReads(i, JStart(i, l1, l2, w), JEnd(i, l1, l2, w), l1, l2, w, len) \o RowReads(i + 1, l1, l2, w, len)

Predicted(l1, l2, w) ==
    LET len == RollLength(l1, l2, w)
    IN RowReads(0, l1, l2, w, len) \o <<Own(l1 - 1) * len + RollFinal(l1, l2, w)>>

FirstDiff(a, b) == IF \E q \in 1..Mn(Len(a), Len(b)) : a[q] # b[q]
                   THEN CHOOSE q \in 1..Mn(Len(a), Len(b)) : a[q] # b[q] /\ \A z \in 1..(q - 1) : a[z] = b[z]
                   ELSE Mn(Len(a), Len(b)) + 1

JudgeRoll(rec) ==
    LET w == IF rec.w = 0 THEN Mx(rec.l1, rec.l2) ELSE rec.w
        want == Predicted(rec.l1, rec.l2, w)
    IN IF rec.buflen # 2 * RollLength(rec.l1, rec.l2, w) THEN Fail(rec.id, "buffer-length")
       ELSE IF \E q \in 1..Len(rec.reads) : rec.reads[q] < 0 \/ rec.reads[q] >= rec.buflen
            THEN Fail(rec.id, "read-outside-the-buffer")
       ELSE IF \E q \in 1..Len(rec.writes) : rec.writes[q] < 0 \/ rec.writes[q] >= rec.buflen
            THEN Fail(rec.id, "write-outside-the-buffer")
       ELSE IF rec.reads # want THEN Fail(rec.id, "read-sequence-differs-at-" \o ToString(FirstDiff(rec.reads, want)))
       ELSE TRUE

Verdict == lvl = 2 => JudgeRoll(T[k])
=============================================================================
