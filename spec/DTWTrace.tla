------------------------------ MODULE DTWTrace ------------------------------
(***************************************************************************)
(* Act T for the DTW family: every record of the trace file holds one case *)
(* (inputs and settings, in the exact domain) and what the implementation  *)
(* returned for it through one or more call routes.  TLC evaluates the     *)
(* specification on the case and judges each observation.                  *)
(*                                                                         *)
(* Observed numbers are internal-domain integers; -1 = infinity,           *)
(* -2 = a float that is not (within 4 ulp) the result transform of an      *)
(* integer cost, -3 = the call raised.                                     *)
(***************************************************************************)
EXTENDS DTWCore, Json, IOUtils

T == JsonDeserialize(IOEnv.TRACE_FILE)
N == Len(T)
ChunkSize == 40
NChunks == (N + ChunkSize - 1) \div ChunkSize

VARIABLES lvl, ch, k
vars == <<lvl, ch, k>>

Init == lvl = 0 /\ ch = 0 /\ k = 0
Next == \/ /\ lvl = 0
           /\ \E x \in 1..NChunks : ch' = x
           /\ lvl' = 1 /\ k' = 0
        \/ /\ lvl = 1
           /\ \E x \in ((ch - 1) * ChunkSize + 1)..Min2(ch * ChunkSize, N) : k' = x
           /\ lvl' = 2 /\ ch' = ch
Spec == Init /\ [][Next]_vars

Enc(v) == IF IsInf(v) THEN -1 ELSE v

----------------------------------------------------------------------------
\* kind "dist": obs[r] is what route r returned for case c
\* use_pruning is documented as "the same as passing ub_euclidean() to max_dist": the optimum, or infinity when it
\* exceeds the Euclidean bound (never, where that bound is valid: C03) or a max_dist given in addition
DistExpected(rec) ==
    IF rec.prune
    THEN LET o == Opt(rec.c)
         IN Enc(IF IsInf(o) \/ Exceeds(rec.c, o) \/ o > ED(rec.c) THEN Inf ELSE o)
    ELSE Enc(DistSpec(rec.c))

JudgeDist(rec) ==
    LET e == DistExpected(rec)
        bad == {r \in 1..Len(rec.obs) : rec.obs[r] # e}
    IN IF bad = {} THEN TRUE ELSE Fail(rec.id, rec.routes[SetMin(bad)])

----------------------------------------------------------------------------
\* kind "agree" (C02): obs[1] is the pure-Python engine, the others are routes into the C engine.
\* The property is agreement of the engines; whether the reference itself equals the specification
\* is decided under C01/C03 and only noted here.  Off-lattice floats are compared by the harness
\* (-2 = equal to the reference within 4 ulp, -6 = differs from it).
JudgeAgree(rec) ==
    LET ref == rec.obs[1]
        bad == {r \in 2..Len(rec.obs) : rec.obs[r] # ref}
    IN IF bad # {} THEN Fail(rec.id, rec.routes[SetMin(bad)])
       ELSE IF ref # DistExpected(rec)
            THEN PrintT(<<"VERDICT-NOTE", rec.id, "reference-deviates-from-spec">>)
            ELSE TRUE

----------------------------------------------------------------------------
\* kind "bounds" (C09): lb[r], ed[r], ub[r] observed through several routes (internal domain),
\* dtw = observed DTW distance of the same case.  Each bound equals the specification's value, the
\* only_ub result is the Euclidean distance, and the sandwich holds on the observed numbers.
JudgeBounds(rec) ==
    LET c == rec.c
        elb == LBKeogh(c)
        eed == ED(c)
        badlb == {r \in 1..Len(rec.lb) : rec.lb[r] # elb}
        baded == {r \in 1..Len(rec.ed) : rec.ed[r] # eed}
        \* only_ub through a distance routine: the bound of a distance that is infinite by max_length_diff is infinite
        badub == {r \in 1..Len(rec.ub) : rec.ub[r] # (IF LengthOK(c) THEN eed ELSE -1)}
        dtw == rec.dtw
        penfree == rec.dtw0
    IN IF badlb # {} THEN Fail(rec.id, rec.lbroutes[SetMin(badlb)])
       ELSE IF baded # {} THEN Fail(rec.id, rec.edroutes[SetMin(baded)])
       ELSE IF badub # {} THEN Fail(rec.id, rec.ubroutes[SetMin(badub)])
       ELSE IF dtw # Enc(Opt(c)) THEN Fail(rec.id, "dtw-reference")
       ELSE IF \E r \in 1..Len(rec.lb) : dtw >= 0 /\ rec.lb[r] > dtw THEN Fail(rec.id, "sandwich:lb>dtw")
       ELSE IF \E r \in 1..Len(rec.ed) : penfree >= 0 /\ rec.ed[r] >= 0 /\ penfree > rec.ed[r]
            THEN Fail(rec.id, "sandwich:dtw>ed")
       ELSE TRUE

----------------------------------------------------------------------------
\* kind "laws" (C10): pairs of calls with related settings; rec.rel[k] = <<name, x, y>> means the
\* observed values must satisfy x (relation name) y; values are internal-domain integers, -1 = inf.
Leq(x, y) == y = -1 \/ (x >= 0 /\ x <= y)
JudgeLaws(rec) ==
    LET bad == {q \in 1..Len(rec.rel) :
                  LET t == rec.rel[q] IN
                  ~ CASE t[2] = "eq" -> t[3] = t[4]
                      [] t[2] = "le" -> Leq(t[3], t[4])
                      [] t[2] = "zero" -> t[3] = 0
                      [] t[2] = "nonneg" -> t[3] >= 0 \/ t[3] = -1}
        e == Enc(Opt(rec.c))
    IN IF bad # {} THEN Fail(rec.id, rec.rel[SetMin(bad)][1])
       ELSE IF rec.base # e THEN Fail(rec.id, "base-differs-from-spec")
       ELSE TRUE

----------------------------------------------------------------------------
\* kind "wps": accumulated cost matrix, rows 0..l1, columns 0..l2 (internal domain)
\*   rec.mat[r] : observed matrix from route r; rec.d[r] observed distance
\*   rec.psineg : cells skipped by end-of-series relaxation may read -4 ("marked")
CellAllowed(c, exp, got, marked) ==
    \/ got = Enc(exp)
    \/ Exceeds(c, exp) /\ (got = -1 \/ (got >= 0 /\ 4 * got > MaxDist4(c)))
    \/ marked /\ got = -4

\* cells that may carry the -1 mark: on the last row strictly right of some admissible end
\* column, or on the last column strictly below some admissible end row
MayMark(c, i, j) ==   \* matrix coordinates
    \/ i = L1(c) /\ j > L2(c) - c.psi[4] /\ c.psi[4] > 0
    \/ j = L2(c) /\ i > L1(c) - c.psi[2] /\ c.psi[2] > 0

\* A border cell (row 0 or column 0 of the matrix) that no in-band cell reads carries no
\* information: the Python engine writes the psi prologue there, the compact C layout does not
\* store it.  Both values are accepted for such cells.
BorderUnread(c, i, j) ==
    \* matrix cell (0, j) is read by the series cells (0, j) and (0, j-1); (i, 0) by (i, 0) and (i-1, 0)
    \/ i = 0 /\ j >= 1 /\ ~CellInBand(c, 0, j) /\ ~CellInBand(c, 0, j - 1)
    \/ j = 0 /\ i >= 1 /\ ~CellInBand(c, i, 0) /\ ~CellInBand(c, i - 1, 0)
CellFree(c, i, j, got) == BorderUnread(c, i, j) /\ got \in {0, -1}

MatrixOK(c, M, got, psineg) ==
    /\ Len(got) = L1(c) + 1
    /\ \A i \in 0..L1(c) :
         /\ Len(got[i + 1]) = L2(c) + 1
         /\ \A j \in 0..L2(c) :
              \/ CellAllowed(c, M[i + 1][j + 1], got[i + 1][j + 1], psineg /\ MayMark(c, i, j))
              \/ CellFree(c, i, j, got[i + 1][j + 1])

\* marks are a suffix of the relaxed part of the last row (or last column): the cells after the
\* chosen end point; the chosen end point itself carries the returned distance
MarksOK(c, got, d) ==
    LET l1 == L1(c)
        l2 == L2(c)
        R == {j \in 0..l2 : got[l1 + 1][j + 1] = -4}
        K == {i \in 0..l1 : got[i + 1][l2 + 1] = -4}
    IN /\ R # {} => R = SetMin(R)..l2
       /\ K # {} => K = SetMin(K)..l1
       /\ (R \cup K # {} /\ d >= 0) =>
            \/ R # {} /\ SetMin(R) >= 1 /\ got[l1 + 1][SetMin(R)] = d
            \/ K # {} /\ SetMin(K) >= 1 /\ got[SetMin(K)][l2 + 1] = d

\* a slice [rb:re, cb:ce] of the expanded matrix (matrix coordinates)
SliceOK(c, M, sl) ==
    LET rb == sl.r[1]
        re == sl.r[2]
        cb == sl.r[3]
        ce == sl.r[4]
    IN /\ Len(sl.mat) = re - rb
       /\ \A i \in rb..(re - 1) :
            /\ Len(sl.mat[i - rb + 1]) = ce - cb
            /\ \A j \in cb..(ce - 1) :
                 \/ CellAllowed(c, M[i + 1][j + 1], sl.mat[i - rb + 1][j - cb + 1], sl.neg /\ MayMark(c, i, j))
                 \/ CellFree(c, i, j, sl.mat[i - rb + 1][j - cb + 1])

JudgeWps(rec) ==
    LET c == rec.c
        M == OptMatrix(c)
        e == Enc(Thresholded(c, OptOf(c, M)))
        badshape == {r \in 1..Len(rec.mat) : rec.mat[r] = <<>>}
        badm == {r \in 1..Len(rec.mat) : rec.mat[r] # <<>> /\ ~MatrixOK(c, M, rec.mat[r], rec.neg[r])}
        badk == {r \in 1..Len(rec.mat) : r \notin badshape \cup badm /\ rec.neg[r] /\ ~MarksOK(c, rec.mat[r], rec.d[r])}
        badd == {r \in 1..Len(rec.d) : rec.d[r] # e}
        bads == {q \in 1..Len(rec.slices) : ~SliceOK(c, M, rec.slices[q])}
    IN IF IsInf(Opt(c)) /\ ~LengthOK(c) THEN TRUE
       ELSE IF badshape # {} THEN Fail(rec.id, rec.routes[SetMin(badshape)] \o ":raised")
       ELSE IF badd # {} THEN Fail(rec.id, rec.routes[SetMin(badd)] \o ":dist")
       ELSE IF badm # {} THEN Fail(rec.id, rec.routes[SetMin(badm)] \o ":matrix")
       ELSE IF badk # {} THEN Fail(rec.id, rec.routes[SetMin(badk)] \o ":marks")
       ELSE IF bads # {} THEN Fail(rec.id, rec.slices[SetMin(bads)].route \o ":slice")
       ELSE TRUE

----------------------------------------------------------------------------
\* kind "path": rec.paths[r] is a sequence of <<i, j>> pairs returned by route r
PathClause(c, p, opt) ==
    IF Len(p) = 0 THEN "empty"
    ELSE IF \E q \in 1..Len(p) : ~(p[q][1] \in 0..(L1(c) - 1) /\ p[q][2] \in 0..(L2(c) - 1)) THEN "range"
    ELSE IF \E q \in 1..(Len(p) - 1) : ~IsStep(p[q], p[q + 1]) THEN "steps"
    ELSE IF \E q \in 1..Len(p) : ~InBand(c, p[q][1], p[q][2]) THEN "band"
    ELSE IF \E q \in 1..Len(p) : PD(c, p[q][1], p[q][2]) > MaxStep(c) THEN "maxstep"
    ELSE IF ~StartOK(c, p[1][1], p[1][2]) THEN "start"
    ELSE IF ~EndOK(c, p[Len(p)][1], p[Len(p)][2]) THEN "end"
    ELSE IF PathCost(c, p) # opt THEN "cost"
    ELSE "ok"

JudgePath(rec) ==
    LET c == rec.c
        opt == Opt(c)
        cl == [r \in 1..Len(rec.paths) |-> PathClause(c, rec.paths[r], opt)]
        bad == {r \in 1..Len(rec.paths) : cl[r] # "ok"}
        badd == {r \in 1..Len(rec.d) : rec.d[r] # -9 /\ rec.d[r] # Enc(opt)}
    IN IF IsInf(opt) THEN TRUE      \* no admissible path: nothing is promised about a path
       \* report a structural clause (range, steps, band, maxstep, start) before an end/cost/empty one, so
       \* that the known end-relaxation finding cannot mask a different rejection of the same record
       ELSE IF bad # {} THEN
            LET hard == {r \in bad : cl[r] \notin {"end", "cost", "empty"}}
                pick == IF hard # {} THEN SetMin(hard) ELSE SetMin(bad)
            IN Fail(rec.id, rec.routes[pick] \o ":" \o cl[pick])
       ELSE IF badd # {} THEN Fail(rec.id, rec.routes[SetMin(badd)] \o ":dist")
       ELSE TRUE

----------------------------------------------------------------------------
\* kind "pathto": best paths traced from a custom start cell (matrix row rs, column cs): the path must be
\* an admissible partial path ending at pair (rs-1, cs-1) whose cost is the cell-wise optimum there
PathToClause(c, M, p, rs, cs) ==
    IF ~(rs \in 1..L1(c) /\ cs \in 1..L2(c)) THEN "start-cell-outside-the-matrix"
    ELSE IF IsInf(OptTo(M, rs - 1, cs - 1)) THEN "ok"      \* nothing is promised for unreachable cells
    ELSE IF Len(p) = 0 THEN "empty"
    ELSE IF \E q \in 1..Len(p) : ~(p[q][1] \in 0..(L1(c) - 1) /\ p[q][2] \in 0..(L2(c) - 1)) THEN "range"
    ELSE IF \E q \in 1..(Len(p) - 1) : ~IsStep(p[q], p[q + 1]) THEN "steps"
    ELSE IF \E q \in 1..Len(p) : ~InBand(c, p[q][1], p[q][2]) THEN "band"
    ELSE IF ~StartOK(c, p[1][1], p[1][2]) THEN "start"
    ELSE IF p[Len(p)] # <<rs - 1, cs - 1>> THEN "end-not-the-start-cell"
    ELSE IF PathCost(c, p) # OptTo(M, rs - 1, cs - 1) THEN "cost"
    ELSE "ok"

JudgePathTo(rec) ==
    LET c == rec.c
        M == OptMatrix(c)
        cl == [r \in 1..Len(rec.paths) |-> PathToClause(c, M, rec.paths[r], rec.starts[r][1], rec.starts[r][2])]
        bad == {r \in 1..Len(rec.paths) : cl[r] # "ok"}
    IN IF bad = {} THEN TRUE ELSE Fail(rec.id, rec.routes[SetMin(bad)] \o ":" \o cl[SetMin(bad)])

----------------------------------------------------------------------------
\* kind "derived" (extension X02): functions derived from a best path
\*   p / amount / extra / steps : warping_path_penalty -> path, warping_amount(path), (total - distance) in the
\*       scaled unit, cumulative-cost differences along the path (internal domain, euclidean inner distance only)
\*   wp / warp                  : dtw.warp -> path used and, per column of series 2, <<sum * S, count>> of the
\*       series-1 values aligned to it (the returned value is sum / count)
RECURSIVE SumPairs(_)
SumPairs(S) == IF S = {} THEN 0 ELSE LET x == CHOOSE y \in S : TRUE IN x[2] + SumPairs(S \ {x})
WarpAmount(p) == Cardinality({q \in 2..Len(p) : ~(p[q][1] = p[q - 1][1] + 1 /\ p[q][2] = p[q - 1][2] + 1)})
DerivedClause(rec) ==
    LET c == rec.c
        opt == Opt(c)
        M == OptMatrix(c)
        pc == PathClause(c, rec.p, opt)
        wc == PathClause(c, rec.wp, opt)
        structural == {"empty", "range", "steps", "band", "maxstep", "start"}
    IN IF IsInf(opt) THEN "ok"
       ELSE IF pc \in structural THEN "penalty-path:" \o pc
       ELSE IF rec.amount # WarpAmount(rec.p) THEN "warping_amount"
       ELSE IF rec.extra # rec.pp * WarpAmount(rec.p) THEN "penalty_post-not-amount-times-penalty"
       ELSE IF rec.steps # <<>> /\ (Len(rec.steps) # Len(rec.p) - 1 \/ \E q \in 2..Len(rec.p) :
                    rec.steps[q - 1] # OptTo(M, rec.p[q][1], rec.p[q][2]) - OptTo(M, rec.p[q - 1][1], rec.p[q - 1][2]))
            THEN "path_stepsize"
       ELSE IF wc # "ok" THEN "warp-path:" \o wc
       ELSE IF Len(rec.warp) # L2(c) THEN "warp-length"
       ELSE IF \E j \in 1..L2(c) :
                 LET rows == {q \in 1..Len(rec.wp) : rec.wp[q][2] = j - 1}
                 IN \/ rec.warp[j][2] # Cardinality(rows)
                    \/ rec.warp[j][1] # SumPairs({<<q, c.s1[rec.wp[q][1] + 1][1]>> : q \in rows})
            THEN "warp-not-the-mean-of-the-aligned-values"
       \* optimality of the penalty path is judged last, so that the recorded finding (back-tracking without
       \* the penalty) cannot mask another rejection of the same record
       ELSE IF pc # "ok" THEN "penalty-path:" \o pc
       ELSE "ok"
JudgeDerived(rec) == LET cl == DerivedClause(rec) IN IF cl = "ok" THEN TRUE ELSE Fail(rec.id, cl)

----------------------------------------------------------------------------
JudgeRec(rec) ==
    CASE rec.kind = "dist" -> JudgeDist(rec)
      [] rec.kind = "agree" -> JudgeAgree(rec)
      [] rec.kind = "bounds" -> JudgeBounds(rec)
      [] rec.kind = "laws" -> JudgeLaws(rec)
      [] rec.kind = "wps" -> JudgeWps(rec)
      [] rec.kind = "path" -> JudgePath(rec)
      [] rec.kind = "pathto" -> JudgePathTo(rec)
      [] rec.kind = "derived" -> JudgeDerived(rec)

Verdict == lvl = 2 => JudgeRec(T[k])
=============================================================================
