------------------------------- MODULE Compact -------------------------------
(***************************************************************************)
(* The compact band layout of the C warping-paths matrix                   *)
(* (dtw_wps_parts, the region-wise fill A-D of dtw_warping_paths_ndim,     *)
(* dtw_expand_wps, the last-column bookkeeping of the psi epilogue).       *)
(*                                                                         *)
(* The matrix has l1+1 rows of `width' slots.  Row 0 is the border row;    *)
(* series row ri (0-based) is stored in matrix row ri+1.  Within a row,     *)
(* slot 0 is the border column or filler; the in-band cells of the row     *)
(* occupy consecutive slots starting at a region dependent position.       *)
(*                                                                         *)
(* Declarative half: the band predicate of DTWCore and "every in-band      *)
(* cell has its own slot inside the advertised buffer, and the recurrence  *)
(* reads the slots of its three predecessors".                             *)
(***************************************************************************)
EXTENDS Common

\* dtw_wps_parts
Parts(l1, l2, w0) ==
    LET window == IF w0 = 0 THEN Max2(l1, l2) ELSE Min2(w0, Max2(l1, l2))
        ldiff == Abs(l1 - l2)
        ldiffr == IF l1 > l2 THEN ldiff ELSE 0
        ldiffc == IF l1 > l2 THEN 0 ELSE ldiff
        width == IF w0 = 0 THEN l2 + 1 ELSE Min2(l2 + 1, ldiff + 2 * window + 1)
        ol == Min2(window + ldiffr, l1 + 1)
        or == IF window + ldiffr <= l1 THEN Max2(l1 + 1 - window - ldiffr, 0) ELSE 0
    IN [window |-> window, ldiff |-> ldiff, ldiffr |-> ldiffr, ldiffc |-> ldiffc, width |-> width,
        length |-> (l1 + 1) * width,
        ri1 |-> Min2(l1, Min2(ol, or)), ri2 |-> Min2(l1, ol), ri3 |-> Min2(l1, Max2(ol, or))]

Region(p, ri) == IF ri < p.ri1 THEN "A" ELSE IF ri < p.ri2 THEN "B" ELSE IF ri < p.ri3 THEN "C" ELSE "D"

\* first column, one-past-last column and slot of the first column of series row ri (fill loops)
DMinCi0(p) == IF p.ri2 = p.ri3 THEN Max2(0, p.ri3 + 1 - p.window - p.ldiffr) ELSE 1 + p.ri3 - p.ri2
DStart0(p) == IF p.ri2 = p.ri3 THEN DMinCi0(p) + 1 ELSE 2
RowMinCi(p, l2, ri) ==
    CASE Region(p, ri) \in {"A", "B"} -> 0
      [] Region(p, ri) = "C" -> 1 + (ri - p.ri2)
      [] Region(p, ri) = "D" -> DMinCi0(p) + (ri - p.ri3)
RowMaxCi(p, l2, ri) ==
    CASE Region(p, ri) = "A" -> p.window + p.ldiffc + ri
      [] Region(p, ri) = "B" -> l2
      [] Region(p, ri) = "C" -> 1 + 2 * p.window - 1 + p.ldiff + (ri - p.ri2)
      [] Region(p, ri) = "D" -> l2
RowStart(p, ri) ==
    CASE Region(p, ri) \in {"A", "B", "C"} -> 1
      [] Region(p, ri) = "D" -> DStart0(p) + (ri - p.ri3)

Cols(p, l2, ri) == RowMinCi(p, l2, ri)..(RowMaxCi(p, l2, ri) - 1)
\* slot (within matrix row ri+1) of series cell (ri, ci)
Slot(p, l2, ri, ci) == RowStart(p, ri) + (ci - RowMinCi(p, l2, ri))
\* absolute index in the buffer
Loc(p, l2, ri, ci) == (ri + 1) * p.width + Slot(p, l2, ri, ci)

\* offsets used by the recurrence of each region: diagonal and vertical predecessor in the previous row
DiagOff(p, ri) == IF Region(p, ri) = "C" THEN 0 ELSE -1
UpOff(p, ri) == IF Region(p, ri) = "C" THEN 1 ELSE 0

\* the band as defined for the distance (DTWCore.InBand with the normalised window)
BandCols(l1, l2, w0, ri) ==
    LET w == IF w0 = 0 THEN Max2(l1, l2) ELSE w0
    IN {j \in 0..(l2 - 1) : j >= ri - Max2(0, l1 - l2) - w + 1 /\ j <= ri + Max2(0, l2 - l1) + w - 1}

\* what the slot at position s of matrix row r holds: a cell, the border, or filler
SlotHolds(p, l1, l2, r, s) ==     \* r matrix row (1..l1), s slot
    LET ri == r - 1
        cs == {ci \in Cols(p, l2, ri) : Slot(p, l2, ri, ci) = s}
    IN IF cs # {} THEN <<"cell", CHOOSE ci \in cs : TRUE>>
       ELSE IF s = 0 /\ Region(p, ri) \in {"A", "B"} THEN <<"border", 0>>
       ELSE <<"filler", 0>>
=============================================================================
