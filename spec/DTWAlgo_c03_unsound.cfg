\* C03 sensitivity self-test: the original (psi-unaware) pruning design must yield a counterexample
SPECIFICATION Spec
CONSTANTS
  MaxLen = 3
  Vals = {0, 2}
  Inners = {"sq"}
  Windows = {0, 2}
  Pens = {0, 1}
  MaxSteps = {0}
  MaxDists = {3, 9}
  Prunes = {FALSE, TRUE}
  PsiMax = 1
  PsiAwarePruning = FALSE
INVARIANT RowsAllowed
INVARIANT PruneSound
INVARIANT ResultCorrect
INVARIANT PruningExact
INVARIANT UBValid
CHECK_DEADLOCK FALSE
