\* C01 thorough (2): declarative path sets vs recurrence; all psi 4-tuples, windows, penalty, max_step,
\* three inner distances, max_length_diff; binary alphabet, lengths <= 3
SPECIFICATION Spec
CONSTANTS
  MaxLen = 3
  Vals = {0, 2}
  Inners = {"sq", "eu", "cu"}
  Windows = {0, 1, 2}
  Pens = {0, 1}
  MaxSteps = {0, 2}
  MaxDists = {0}
  MLDs = {99, 1}
  PsiMax = 2
  TinyLen = 4
INVARIANT CellwiseOptimal
INVARIANT DistanceOptimal
INVARIANT EnumerationSound
CHECK_DEADLOCK FALSE
