\* C01 quick (b): value-rich alphabet, lengths <= 3, fewer options
SPECIFICATION Spec
CONSTANTS
  MaxLen = 3
  Vals = {0, 1, 3}
  Inners = {"sq"}
  Windows = {0, 1, 2}
  Pens = {0, 1}
  MaxSteps = {0, 2}
  MaxDists = {0}
  MLDs = {99}
  PsiMax = 0
  TinyLen = 4
INVARIANT CellwiseOptimal
INVARIANT DistanceOptimal
INVARIANT EnumerationSound
CHECK_DEADLOCK FALSE
