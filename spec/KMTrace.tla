-------------------------------- MODULE KMTrace --------------------------------
(* Act T for DBA k-means (C16): recorded fits judged by the postconditions of KMeans.tla.
   The constants of KMeans are not used here (records carry k, n, max_it). *)
EXTENDS Common, Json, IOUtils

T == JsonDeserialize(IOEnv.TRACE_FILE)
N == Len(T)
ChunkSize == 20
NChunks == (N + ChunkSize - 1) \div ChunkSize
VARIABLES lvl, ch, k
vars == <<lvl, ch, k>>
Init == lvl = 0 /\ ch = 0 /\ k = 0
Next == \/ /\ lvl = 0 /\ \E x \in 1..NChunks : ch' = x
           /\ lvl' = 1 /\ k' = 0
        \/ /\ lvl = 1 /\ \E x \in ((ch - 1) * ChunkSize + 1)..Min2(ch * ChunkSize, N) : k' = x
           /\ lvl' = 2 /\ ch' = ch
Spec == Init /\ [][Next]_vars

\* same predicate as KMeans!ResultOK, on a dictionary given as sequence of <<key, members>>
FitClause(f) ==
    LET keys == {f.result[q][1] : q \in 1..Len(f.result)}
        mem(c) == LET q == CHOOSE q \in 1..Len(f.result) : f.result[q][1] = c
                  IN {f.result[q][2][z] : z \in 1..Len(f.result[q][2])}
    IN IF f.raised THEN "raised"
       ELSE IF Len(f.result) # f.k \/ keys # 0..(f.k - 1) THEN "keys-not-0..k-1"
       ELSE IF UNION {mem(c) : c \in keys} # 0..(f.n - 1) THEN "not-all-series-covered"
       ELSE IF \E c, d \in keys : c # d /\ mem(c) \cap mem(d) # {} THEN "clusters-overlap"
       ELSE IF f.nmeans # f.k THEN "number-of-means"
       \* ranks[s+1][c+1] = dense rank of the DTW distance (library single-pair routine) series s - mean c
       ELSE IF \E c \in keys : \E s \in mem(c) : \E d \in 0..(f.k - 1) : f.ranks[s + 1][c + 1] > f.ranks[s + 1][d + 1]
            THEN "series-not-with-a-nearest-mean"
       ELSE IF f.performed > f.maxit + 1 THEN "iteration-count"
       \* monitor_distances: one call per started iteration, then exactly one final call whose clusters
       \* are the returned ones
       ELSE IF f.monitored /\ (f.calls # f.performed - 1 \/ f.finals # 1 \/ ~f.finalsame) THEN "monitor-callback"
       ELSE "ok"

JudgeKM(rec) ==
    LET cl == [q \in 1..Len(rec.fits) |-> FitClause(rec.fits[q])]
        bad == {q \in 1..Len(rec.fits) : cl[q] # "ok"}
    IN IF bad = {} THEN TRUE ELSE Fail(rec.id, rec.fits[SetMin(bad)].route \o ":" \o cl[SetMin(bad)])

Verdict == lvl = 2 => JudgeKM(T[k])
=============================================================================
