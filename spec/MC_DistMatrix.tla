---------------------------- MODULE MC_DistMatrix ----------------------------
(***************************************************************************)
(* Act M for distance-matrix index plans: for EVERY block                  *)
(* 0 <= rb < re <= n, 0 <= cb < ce <= n, triangular or not, n <= MaxN, the *)
(* four transcribed index computations agree with the declarative Pairs.   *)
(***************************************************************************)
EXTENDS DistMatrix

CONSTANT MaxN
VARIABLES n, b
vars == <<n, b>>

Init == n = 0 /\ b = NoBlock(0)
Next == /\ n = 0
        /\ \E m \in 1..MaxN : \E rb \in 0..(m - 1), cb \in 0..(m - 1) :
             \E re \in (rb + 1)..m, ce \in (cb + 1)..m, t \in BOOLEAN :
               /\ n' = m
               /\ b' = [rb |-> rb, re |-> re, cb |-> cb, ce |-> ce, triu |-> t]
Spec == Init /\ [][Next]_vars

LengthsAgree ==
    n > 0 => /\ PyLength(b) = Length(b)
             /\ CLength(b) = Length(b)
             /\ CLengthNoBlock(n) = Length(NoBlock(n))

SerialAgrees == n > 0 => SerialOrder(b) = Pairs(b)

\* every selected pair is written by exactly the loop iteration of its row, to its layout slot,
\* inside the output array; rows that select nothing write nothing (although rls may be negative)
OmpAgrees ==
    n > 0 =>
      LET plan == Plan(b)
      IN \A ri \in 0..(b.re - b.rb - 1) :
            LET r == b.rb + ri
            IN \A c \in OmpFirstCol(b, plan, ri)..(b.ce - 1) :
                  /\ <<r, c>> \in Selected(b)
                  /\ OmpSlot(b, plan, ri, c) = PosOf(b, <<r, c>>)
                  /\ OmpSlot(b, plan, ri, c) \in 0..(Length(b) - 1)
OmpCovers ==
    n > 0 =>
      LET plan == Plan(b)
      IN \A p \in Selected(b) : p[2] >= OmpFirstCol(b, plan, p[1] - b.rb)

\* dtw.distance_array_index
RECURSIVE SumRows(_, _)
SumRows(a, m) == IF a = 0 THEN 0 ELSE (m - (a - 1) - 1) + SumRows(a - 1, m)
PyArrayIndex(a, bb, m) == LET lo == Min2(a, bb) hi == Max2(a, bb) IN SumRows(lo, m) + hi - lo - 1
CondensedAgrees ==
    n > 0 => \A a \in 0..(n - 1), bb \in 0..(n - 1) : a # bb => PyArrayIndex(a, bb, n) = CondensedIndex(a, bb, n)
=============================================================================
