-------------------------------- MODULE MC_DBA --------------------------------
(***************************************************************************)
(* Act M for DBA: for every collection / initial average / mask / settings *)
(* of the slice and EVERY choice of one optimal path per selected series,  *)
(* the averaging step stays in the value range, never worsens the sum of   *)
(* squared DTW costs, and leaves identical series fixed.                   *)
(***************************************************************************)
EXTENDS DBA

CONSTANTS MaxSeries, MaxLen, Vals, Windows, Pens
VARIABLES stage, ser, avg, mask, set
vars == <<stage, ser, avg, mask, set>>

Template == [s1 |-> <<>>, s2 |-> <<>>, inner |-> "sq", w |-> 0, pen |-> 0, ms |-> 0, md |-> 0, mld |-> -1,
             psi |-> <<0, 0, 0, 0>>]
SeriesOfLen(n) == [1..n -> {<<v>> : v \in Vals}]
AllSeries == UNION {SeriesOfLen(n) : n \in 1..MaxLen}

Init == stage = 0 /\ ser = <<>> /\ avg = <<>> /\ mask = <<>> /\ set = Template
Pick0 == /\ stage = 0
         /\ \E n \in 1..MaxSeries, w \in Windows, pen \in Pens :
              /\ \E m \in [1..n -> BOOLEAN] : (\E k \in 1..n : m[k]) /\ mask' = m
              /\ set' = [Template EXCEPT !.w = w, !.pen = pen]
              /\ ser' = [k \in 1..n |-> <<>>]
         /\ avg' = avg /\ stage' = 1
Pick1 == /\ stage = 1
         /\ \E sq \in [1..Len(ser) -> AllSeries], a \in AllSeries : ser' = sq /\ avg' = a
         /\ stage' = 2 /\ UNCHANGED <<mask, set>>
Next == Pick0 \/ Pick1
Spec == Init /\ [][Next]_vars

sel == Selected(mask)
ValidChoices == {ch \in Choices(set, ser, avg, sel) : ValidChoice(set, ser, avg, sel, ch)}

\* some alignment exists and every position of the average gets at least one point
Defined == stage = 2 => (ValidChoices # {} /\ \A ch \in ValidChoices : \A i \in 0..(Len(avg) - 1) : CountAt(ch, sel, i) > 0)

StepTheorems ==
    stage = 2 =>
      \A ch \in ValidChoices :
         LET new == NewOf(ser, avg, ch, sel)
             dn == ScaleOf(avg, ch, sel)
         IN /\ Explains(ser, avg, sel, ch, new, dn)
            /\ InRange(ser, sel, new, dn)
            /\ NotWorse(set, ser, avg, sel, new, dn)
            /\ ((\A k \in sel : ser[k] = avg) => \A i \in 1..Len(avg) : new[i][1] = dn * avg[i][1])

\* the search form used for trace validation decides the same predicate as the declarative one: on every
\* result of the step, on a perturbed result, and on a result at a wrong scale
SearchAgrees ==
    stage = 2 =>
      \A ch \in ValidChoices :
         LET new == NewOf(ser, avg, ch, sel)
             dn == ScaleOf(avg, ch, sel)
             bad == [new EXCEPT ![1] = [new[1] EXCEPT ![1] = @ + 1]]
         IN /\ AllowedSearch(set, ser, avg, mask, new, dn) /\ Allowed(set, ser, avg, mask, new, dn)
            /\ AllowedSearch(set, ser, avg, mask, bad, dn) = Allowed(set, ser, avg, mask, bad, dn)
            /\ AllowedSearch(set, ser, avg, mask, new, dn + 1) = Allowed(set, ser, avg, mask, new, dn + 1)
=============================================================================
