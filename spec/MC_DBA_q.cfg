SPECIFICATION Spec
CONSTANTS
  MaxSeries = 2
  MaxLen = 2
  Vals = {0, 1, 3}
  Windows = {0, 1}
  Pens = {0, 1}
INVARIANT Defined
INVARIANT StepTheorems
INVARIANT SearchAgrees
CHECK_DEADLOCK FALSE
