SPECIFICATION Spec
CONSTANTS
  MaxQ = 3
  MaxS = 5
  Vals = {0, 2}
  Pens = {0, 1, 2}
INVARIANT MatchingFunctionIsMinOverStarts
CHECK_DEADLOCK FALSE
