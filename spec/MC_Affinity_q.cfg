SPECIFICATION Spec
CONSTANTS
  MaxLen = 3
  Vals = {0, 1, 3}
  Windows = {0, 2}
  PensP = {0, 1}
  Tau2s = {78643}
  DeltasP = {0, 1}
  DFs = {1, 2}
  MaxYields = 3
  PsiBegins <- PsiBeginsQ
INVARIANT InBandNonNegative
INVARIANT HistoryInvariant
CHECK_DEADLOCK FALSE
