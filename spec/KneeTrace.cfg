SPECIFICATION Spec
INVARIANT Verdict
CHECK_DEADLOCK FALSE
