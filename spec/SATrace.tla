------------------------------- MODULE SATrace -------------------------------
(* Act T for subsequence alignment (C13) *)
EXTENDS SubseqAlign, Json, IOUtils

T == JsonDeserialize(IOEnv.TRACE_FILE)
N == Len(T)
ChunkSize == 20
NChunks == (N + ChunkSize - 1) \div ChunkSize
VARIABLES lvl, ch, k
vars == <<lvl, ch, k>>
Init == lvl = 0 /\ ch = 0 /\ k = 0
Next == \/ /\ lvl = 0 /\ \E x \in 1..NChunks : ch' = x
           /\ lvl' = 1 /\ k' = 0
        \/ /\ lvl = 1 /\ \E x \in ((ch - 1) * ChunkSize + 1)..Min2(ch * ChunkSize, N) : k' = x
           /\ lvl' = 2 /\ ch' = ch
Spec == Init /\ [][Next]_vars

Enc(v) == IF IsInf(v) THEN -1 ELSE v

JudgeSA(rec) ==
    LET c == SACase(rec.set, rec.q, rec.s)
        M == OptMatrix(c)
        n == Len(rec.s)
        mc(e) == Enc(MatchCostAt(M, rec.q, e))
        badmf == {r \in 1..Len(rec.mf) :
                    ~ (Len(rec.mf[r].vals) = n /\ \A e \in 0..(n - 1) : rec.mf[r].vals[e + 1] = mc(e))}
        badmatch == {r \in 1..Len(rec.matches) :
                       LET m == rec.matches[r] IN
                       ~ /\ m.e \in 0..(n - 1)
                         /\ m.cost = mc(m.e)
                         /\ Len(m.path) >= 1
                         /\ \A z \in 1..Len(m.path) : m.path[z][1] \in 0..(Len(rec.q) - 1) /\ m.path[z][2] \in 0..(n - 1)
                         /\ MatchPathOK(c, m.path, m.e, MatchCostAt(M, rec.q, m.e))
                         /\ m.b = m.path[1][2]}
        baditer == {r \in 1..Len(rec.iters) :
                      LET it == rec.iters[r] IN
                      ~ /\ IterOK(it.segs, it.vals, it.k, it.overlap, it.minl, it.maxl)
                        /\ \A z \in 1..Len(it.segs) : it.segs[z][2] \in 0..(n - 1) /\ it.vals[z] = mc(it.segs[z][2])
                        /\ it.same}
    IN IF badmf # {} THEN Fail(rec.id, rec.mf[SetMin(badmf)].route)
       ELSE IF badmatch # {} THEN Fail(rec.id, rec.matches[SetMin(badmatch)].route)
       ELSE IF baditer # {} THEN Fail(rec.id, rec.iters[SetMin(baditer)].route)
       ELSE TRUE

Verdict == lvl = 2 => JudgeSA(T[k])
=============================================================================
