SPECIFICATION Spec
CONSTANTS
  MaxN = 5
  DVals = {1, 2, 100000000}
  MaxDs = {1, 2, 100000000}
INVARIANT PartitionAlways
INVARIANT Monotone
INVARIANT Bounded
INVARIANT TreeAtEnd
INVARIANT Progress
CHECK_DEADLOCK FALSE
