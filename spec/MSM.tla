--------------------------------- MODULE MSM ---------------------------------
(***************************************************************************)
(* Move-Split-Merge distance (dtaidistance.msm.distance; Stefan, Athitsos  *)
(* and Das 2012).  Extension X01: not one of the listed properties.        *)
(*                                                                         *)
(* Algorithmic half: the dynamic programme of the implementation, row by   *)
(* row.  Declarative half: the edit system the metric is defined by --     *)
(* Move (change one value, cost = |change|), Split (duplicate an element,  *)
(* cost c) and Merge (collapse two equal neighbours, cost c) -- of which   *)
(* the distance is the cheapest transformation.  MC_MSM checks the Bellman *)
(* characterisation of "cheapest": no edit can beat the programme          *)
(* (soundness) and from every x # y some edit lies on an optimal route     *)
(* (tightness); together with MSM(y, y) = 0 these say that the programme   *)
(* computes the shortest-path distance of the edit graph.                  *)
(***************************************************************************)
EXTENDS Common

\* cost of a split/merge step that accounts for value a between its neighbours b and c
SMCost(a, b, c, smc) ==
    IF (b <= a /\ a <= c) \/ (b >= a /\ a >= c) THEN smc
    ELSE smc + Min2(Abs(a - b), Abs(a - c))

\* first row: cost[1][j]
RECURSIVE FirstRow(_, _, _, _)
FirstRow(x, y, smc, acc) ==
    LET j == Len(acc) + 1
    IN IF j > Len(y) THEN acc
       ELSE IF j = 1 THEN FirstRow(x, y, smc, <<Abs(x[1] - y[1])>>)
       ELSE FirstRow(x, y, smc, Append(acc, acc[j - 1] + SMCost(y[j], x[1], y[j - 1], smc)))

RECURSIVE RowFrom(_, _, _, _, _, _)
RowFrom(x, y, smc, prev, i, acc) ==
    LET j == Len(acc) + 1
    IN IF j > Len(y) THEN acc
       ELSE IF j = 1 THEN RowFrom(x, y, smc, prev, i, <<prev[1] + SMCost(x[i], x[i - 1], y[1], smc)>>)
       ELSE RowFrom(x, y, smc, prev, i,
                    Append(acc, Min3(prev[j - 1] + Abs(x[i] - y[j]),
                                     prev[j] + SMCost(x[i], x[i - 1], y[j], smc),
                                     acc[j - 1] + SMCost(y[j], x[i], y[j - 1], smc))))

RECURSIVE RowsFrom(_, _, _, _)
RowsFrom(x, y, smc, rows) ==
    LET i == Len(rows) + 1
    IN IF i > Len(x) THEN rows
       ELSE RowsFrom(x, y, smc, Append(rows, RowFrom(x, y, smc, rows[i - 1], i, <<>>)))

\* MSMMatrix(x, y, smc)[i][j], 1-based, x and y non-empty integer sequences
MSMMatrix(x, y, smc) == RowsFrom(x, y, smc, <<FirstRow(x, y, smc, <<>>)>>)
MSMDist(x, y, smc) == MSMMatrix(x, y, smc)[Len(x)][Len(y)]

\* the edit system: <<cost, result>> of every single edit of x that stays inside the universe
RemoveAt(s, i) == [k \in 1..(Len(s) - 1) |-> IF k < i THEN s[k] ELSE s[k + 1]]
InsertAfter(s, i) == [k \in 1..(Len(s) + 1) |-> IF k <= i THEN s[k] ELSE s[k - 1]]
Edits(x, smc, lo, hi, maxlen) ==
    {<<1, [x EXCEPT ![i] = x[i] + 1]>> : i \in {k \in 1..Len(x) : x[k] < hi}}
    \cup {<<1, [x EXCEPT ![i] = x[i] - 1]>> : i \in {k \in 1..Len(x) : x[k] > lo}}
    \cup (IF Len(x) < maxlen THEN {<<smc, InsertAfter(x, i)>> : i \in 1..Len(x)} ELSE {})
    \cup {<<smc, RemoveAt(x, i)>> : i \in {k \in 1..(Len(x) - 1) : x[k] = x[k + 1]}}
=============================================================================
