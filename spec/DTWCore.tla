------------------------------- MODULE DTWCore -------------------------------
(***************************************************************************)
(* Dynamic Time Warping: the declarative definition (sets of admissible    *)
(* warping paths) and the cell-wise recurrence derived from it.            *)
(*                                                                         *)
(* A case c is a record                                                    *)
(*   s1, s2 : sequences of points; a point is a tuple of scaled integers   *)
(*            (a univariate series uses 1-tuples)                          *)
(*   inner  : "sq" squared Euclidean | "eu" Euclidean | "cu" custom        *)
(*            (2|x-y|, result x/2, inner_val 2x - a user supplied object)  *)
(*   w      : window, w >= 1 (w = 0 encodes "no window" = max length)      *)
(*   pen    : penalty at user level (scaled); 0 = none                     *)
(*   ms     : max_step at user level (scaled); 0 = none                    *)
(*   md     : max_dist at user level in HALF scaled units (odd => never    *)
(*            equal to an attainable cost); 0 = none                       *)
(*   mld    : max_length_diff; -1 = none                                   *)
(*   psi    : <<psi_1b, psi_1e, psi_2b, psi_2e>>                           *)
(* User-level settings are transformed into the internal cost domain by    *)
(* InnerVal, exactly as the property demands ("equally transformed").      *)
(* Costs are in the internal domain: squared for "sq", plain for "eu".     *)
(***************************************************************************)
EXTENDS Common

L1(c) == Len(c.s1)
L2(c) == Len(c.s2)
Win(c) == IF c.w = 0 THEN Max2(L1(c), L2(c)) ELSE c.w

SqDist(p, q) == SumSeq([d \in 1..Len(p) |-> Sq(p[d] - q[d])])

\* point distance between s1[i] and s2[j], 0-based i, j, in the internal domain
PD(c, i, j) ==
    LET p == c.s1[i + 1]
        q == c.s2[j + 1]
    IN CASE c.inner = "sq" -> SqDist(p, q)
         [] c.inner = "eu" -> IF Len(p) = 1 THEN Abs(p[1] - q[1]) ELSE ISqrt(SqDist(p, q))
         [] c.inner = "cu" -> 2 * Abs(p[1] - q[1])

\* the point alphabets used with "eu" in several dimensions have integer distances
EuclidExact(c) ==
    c.inner = "eu" =>
      \A i \in 1..L1(c), j \in 1..L2(c) : IsSquare(SqDist(c.s1[i], c.s2[j]))

\* transformation of a user-level setting into the internal cost domain
InnerVal(c, x) == CASE c.inner = "sq" -> x * x
                    [] c.inner = "eu" -> x
                    [] c.inner = "cu" -> 2 * x

Pen(c) == InnerVal(c, c.pen)
MaxStep(c) == IF c.ms = 0 THEN Inf ELSE InnerVal(c, c.ms)
\* four times the internal threshold (md is in half units: (md/2)^2 * 4 = md^2)
MaxDist4(c) == IF c.md = 0 THEN 4 * Inf
               ELSE CASE c.inner = "sq" -> c.md * c.md
                      [] c.inner = "eu" -> 2 * c.md
                      [] c.inner = "cu" -> 4 * c.md
Exceeds(c, cost) == c.md # 0 /\ (IsInf(cost) \/ 4 * cost > MaxDist4(c))

InBand(c, i, j) ==
    LET w == Win(c)
        l1 == L1(c)
        l2 == L2(c)
    IN /\ j >= i - Max2(0, l1 - l2) - w + 1
       /\ j <= i + Max2(0, l2 - l1) + w - 1

CellInBand(c, i, j) == i \in 0..(L1(c) - 1) /\ j \in 0..(L2(c) - 1) /\ InBand(c, i, j)

CellOK(c, i, j) ==
    /\ i \in 0..(L1(c) - 1)
    /\ j \in 0..(L2(c) - 1)
    /\ InBand(c, i, j)
    /\ PD(c, i, j) <= MaxStep(c)

\* psi-relaxed corners (L-shaped): a path may start on the first row within psi_2b columns
\* or on the first column within psi_1b rows, and symmetrically for the end.
StartOK(c, i, j) == \/ i = 0 /\ j <= c.psi[3]
                    \/ j = 0 /\ i <= c.psi[1]
EndOK(c, i, j) == \/ i = L1(c) - 1 /\ j >= L2(c) - 1 - c.psi[4]
                  \/ j = L2(c) - 1 /\ i >= L1(c) - 1 - c.psi[2]

\* psi combinations that allow an empty alignment are outside every property
DegeneratePsi(c) == \/ c.psi[1] >= L1(c) /\ c.psi[4] >= L2(c)
                    \/ c.psi[3] >= L2(c) /\ c.psi[2] >= L1(c)

IsStep(a, b) == \/ b[1] = a[1] + 1 /\ b[2] = a[2] + 1
                \/ b[1] = a[1] + 1 /\ b[2] = a[2]
                \/ b[1] = a[1] /\ b[2] = a[2] + 1
IsDiag(a, b) == b[1] = a[1] + 1 /\ b[2] = a[2] + 1

(***************************************************************************)
(* Declarative half: admissible warping paths and their cost.              *)
(***************************************************************************)
PathShape(c, p) ==
    /\ Len(p) >= 1
    /\ \A k \in 1..Len(p) : CellOK(c, p[k][1], p[k][2])
    /\ \A k \in 1..(Len(p) - 1) : IsStep(p[k], p[k + 1])

Admissible(c, p) ==
    /\ PathShape(c, p)
    /\ StartOK(c, p[1][1], p[1][2])
    /\ EndOK(c, p[Len(p)][1], p[Len(p)][2])

NonDiag(p) == Cardinality({k \in 1..(Len(p) - 1) : ~IsDiag(p[k], p[k + 1])})

PathCost(c, p) ==
    SumSeq([k \in 1..Len(p) |-> PD(c, p[k][1], p[k][2])]) + Pen(c) * NonDiag(p)

\* constructive enumeration of all path prefixes that end in (i, j)
RECURSIVE PathsTo(_, _, _)
PathsTo(c, i, j) ==
    IF ~CellOK(c, i, j) THEN {}
    ELSE (IF StartOK(c, i, j) THEN {<< <<i, j>> >>} ELSE {})
         \cup {Append(p, <<i, j>>) :
                 p \in PathsTo(c, i - 1, j - 1) \cup PathsTo(c, i - 1, j) \cup PathsTo(c, i, j - 1)}

EndCells(c) == {ij \in (0..(L1(c) - 1)) \X (0..(L2(c) - 1)) : EndOK(c, ij[1], ij[2])}
AllPaths(c) == UNION {PathsTo(c, ij[1], ij[2]) : ij \in EndCells(c)}

LengthOK(c) == c.mld = -1 \/ Abs(L1(c) - L2(c)) <= c.mld

\* the minimum over all admissible paths (no thresholding)
OptPaths(c) == IF ~LengthOK(c) THEN Inf
               ELSE SetMinOr({PathCost(c, p) : p \in AllPaths(c)}, Inf)

(***************************************************************************)
(* Cell-wise recurrence (the accumulated-cost matrix).  Row i of the       *)
(* matrix (0..l1) is a sequence over columns 0..l2, stored 1-based.        *)
(***************************************************************************)
Border0(c) == [j \in 1..(L2(c) + 1) |-> IF j - 1 <= c.psi[3] THEN 0 ELSE Inf]
BorderCol(c, i) == IF i <= c.psi[1] THEN 0 ELSE Inf    \* matrix cell (i, 0)

\* next matrix row (i+1) from matrix row i (prev), for series index i
NextRow(c, prev, i) ==
    LET l2 == L2(c)
        pen == Pen(c)
        RECURSIVE Go(_, _)
        Go(j, acc) ==   \* acc holds matrix columns 0..j of the new row
            IF j = l2 THEN acc
            ELSE LET v == IF ~CellOK(c, i, j) THEN Inf
                          ELSE Add(PD(c, i, j),
                                   Min3(prev[j + 1], Add(prev[j + 2], pen), Add(acc[j + 1], pen)))
                 IN Go(j + 1, Append(acc, v))
    IN Go(0, <<BorderCol(c, i + 1)>>)

RECURSIVE RowsFrom(_, _, _)
RowsFrom(c, acc, i) ==
    IF i = L1(c) THEN acc ELSE RowsFrom(c, Append(acc, NextRow(c, acc[i + 1], i)), i + 1)

\* OptMatrix(c)[i+1][j+1] = matrix cell (i, j), 0 <= i <= l1, 0 <= j <= l2
OptMatrix(c) == RowsFrom(c, <<Border0(c)>>, 0)

\* cost of the best admissible partial path ending at pair (i, j)
OptTo(M, i, j) == M[i + 2][j + 2]

OptOf(c, M) == IF ~LengthOK(c) THEN Inf
               ELSE SetMinOr({OptTo(M, ij[1], ij[2]) : ij \in EndCells(c)}, Inf)
Opt(c) == OptOf(c, OptMatrix(c))

\* what a distance routine must return (internal domain, before the result transform):
\* the optimum, or infinity when it exceeds max_dist
Thresholded(c, v) == IF Exceeds(c, v) THEN Inf ELSE v
DistSpec(c) == Thresholded(c, Opt(c))

(***************************************************************************)
(* Bounds                                                                  *)
(***************************************************************************)
\* Euclidean distance with last-element padding for unequal lengths (internal domain)
PDpts(c, p, q) == CASE c.inner = "sq" -> SqDist(p, q)
                    [] c.inner = "eu" -> IF Len(p) = 1 THEN Abs(p[1] - q[1]) ELSE ISqrt(SqDist(p, q))
                    [] c.inner = "cu" -> 2 * Abs(p[1] - q[1])
ED(c) == LET l1 == L1(c)
             l2 == L2(c)
             n == Min2(l1, l2)
             m == Max2(l1, l2)
         IN SumSeq([k \in 1..m |-> PDpts(c, c.s1[Min2(k, l1)], c.s2[Min2(k, l2)])])

\* LB_Keogh (univariate): envelope of s2 over the band around i
LBKeogh(c) ==
    LET l1 == L1(c)
        l2 == L2(c)
        w == Win(c)
        lo(i) == Max2(0, i - Max2(0, l1 - l2) - w + 1)
        hi(i) == Min2(l2 - 1, i + Max2(0, l2 - l1) + w - 1)
        env(i) == {c.s2[j + 1][1] : j \in lo(i)..hi(i)}
        term(i) == LET x == c.s1[i + 1][1]
                       E == env(i)
                   IN IF E = {} THEN 0
                      ELSE LET u == SetMax(E)
                               l == SetMin(E)
                           IN IF x > u THEN (IF c.inner = "sq" THEN Sq(x - u) ELSE x - u)
                              ELSE IF x < l THEN (IF c.inner = "sq" THEN Sq(l - x) ELSE l - x)
                              ELSE 0
    IN SumSeq([k \in 1..l1 |-> term(k - 1)])
=============================================================================
