SPECIFICATION Spec
CONSTANTS
  MaxLen = 4
  Alphabet = {0, 1}
  SubValsP = {5, 1}
  GapsP = {0, 2, 1}
INVARIANT DPIsOptimal
INVARIANT Attained
CHECK_DEADLOCK FALSE
