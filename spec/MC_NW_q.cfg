SPECIFICATION Spec
CONSTANTS
  MaxLen = 3
  Alphabet = {0, 1}
  SubValsP = {5, 1, 4}
  GapsP = {0, 2, 1, 3}
INVARIANT DPIsOptimal
INVARIANT Attained
CHECK_DEADLOCK FALSE
