-------------------------------- MODULE MC_MSM --------------------------------
(* Act M for the MSM extension: Bellman characterisation and metric laws, all series of the slice *)
EXTENDS MSM
CONSTANTS MaxLen, Lo, Hi, Costs, Triples
VARIABLES x, y, z, c, picked
vars == <<x, y, z, c, picked>>
Series(n) == UNION {[1..k -> Lo..Hi] : k \in 1..n}
Init == x = <<0>> /\ y = <<0>> /\ z = <<0>> /\ c = 0 /\ picked = FALSE
Next == /\ ~picked /\ picked' = TRUE
        /\ \E a \in Series(MaxLen), b \in Series(MaxLen) : x' = a /\ y' = b
        /\ IF Triples THEN \E d \in Series(MaxLen) : z' = d ELSE z' = <<0>>
        /\ \E k \in Costs : c' = k
Spec == Init /\ [][Next]_vars

D(a, b) == MSMDist(a, b, c)
\* no single edit (staying in the universe, one longer than the pairs) beats the programme
BellmanSound == picked => \A e \in Edits(x, c, Lo, Hi, MaxLen + 1) : D(x, y) <= e[1] + D(e[2], y)
\* some edit lies on an optimal route
BellmanTight == (picked /\ x # y) => \E e \in Edits(x, c, Lo, Hi, MaxLen + 1) : D(x, y) = e[1] + D(e[2], y)
Identity == picked => D(x, x) = 0
Symmetric == picked => D(x, y) = D(y, x)
NonNegative == picked => D(x, y) >= 0
Separates == (picked /\ c > 0 /\ x # y) => D(x, y) > 0
Triangle == (picked /\ Triples) => D(x, z) <= D(x, y) + D(y, z)
MonotoneInCost == picked => MSMDist(x, y, c) <= MSMDist(x, y, c + 1)
=============================================================================
