------------------------------ MODULE PurityTrace ------------------------------
(* Act T for purity (C20): recorded call histories on shared objects judged by Purity.tla; results of
   distance calls are in addition compared with DTWCore (result = F(content)). *)
EXTENDS Purity, DTWCore, Json, IOUtils
T == JsonDeserialize(IOEnv.TRACE_FILE)
N == Len(T)
ChunkSize == 10
NChunks == (N + ChunkSize - 1) \div ChunkSize
VARIABLES lvl, ch, k
vars == <<lvl, ch, k>>
Init == lvl = 0 /\ ch = 0 /\ k = 0
Next == \/ /\ lvl = 0 /\ \E x \in 1..NChunks : ch' = x
           /\ lvl' = 1 /\ k' = 0
        \/ /\ lvl = 1 /\ \E x \in ((ch - 1) * ChunkSize + 1)..Min2(ch * ChunkSize, N) : k' = x
           /\ lvl' = 2 /\ ch' = ch
Spec == Init /\ [][Next]_vars

Enc(v) == IF IsInf(v) THEN -1 ELSE v

JudgeHistory(rec) ==
    LET h == rec.h
        mutated == {i \in 1..Len(h) : ~StoreUnchanged(h[i])}
        nonfun == {i \in 1..Len(h) : \E j \in 1..(i - 1) : h[i].token = h[j].token /\ h[i].result # h[j].result}
        wrong == {i \in 1..Len(h) : h[i].hasspec /\ h[i].specresult # Enc(DistSpec(h[i].c))}
        raised == {i \in 1..Len(h) : h[i].raised}
    IN IF mutated # {} THEN Fail(rec.id, h[SetMin(mutated)].route \o ":input-modified")
       ELSE IF raised # {} THEN Fail(rec.id, h[SetMin(raised)].route \o ":raised")
       ELSE IF nonfun # {} THEN Fail(rec.id, h[SetMin(nonfun)].route \o ":result-depends-on-container-or-history")
       ELSE IF wrong # {} THEN Fail(rec.id, h[SetMin(wrong)].route \o ":result-not-a-function-of-content")
       ELSE TRUE

Verdict == lvl = 2 => JudgeHistory(T[k])
=============================================================================
