------------------------------- MODULE Affinity -------------------------------
(***************************************************************************)
(* Affinity (local-concurrence) warping-paths matrix and the matches       *)
(* traced from its maxima (dtw.warping_paths_affinity(_fast),              *)
(* subsequence.localconcurrences).                                         *)
(*                                                                         *)
(* Exact regime: gamma = ln 2, so the point affinity of an integer         *)
(* difference d is 2^(-d^2); all quantities are integers at scale SC       *)
(* (a power of two large enough for repeated halving by delta_factor).     *)
(* A case: s1, s2 (1-tuples of small integers), w (0 = none), pen, tau2    *)
(* (twice the scaled threshold, odd => never equal to an affinity), delta, *)
(* dfnum/dfden (delta_factor), triu, psi.                                  *)
(***************************************************************************)
EXTENDS Common

SC == 131072                 \* 2^17 = 2^9 (affinities of |d| <= 3) * 2^8 (halvings)
NegInf == -100000000
IsNegInf(x) == x <= NegInf
RECURSIVE Pow2(_)
Pow2(n) == IF n = 0 THEN 1 ELSE 2 * Pow2(n - 1)
Aff(d) == LET e == d * d IN IF e > 9 THEN 0 ELSE SC \div Pow2(e)      \* 2^(-d^2), scaled; |d| <= 3 exact

AL1(c) == Len(c.s1)
AL2(c) == Len(c.s2)
AWin(c) == IF c.w = 0 THEN Max2(AL1(c), AL2(c)) ELSE c.w
AInBand(c, i, j) ==
    /\ j >= i - Max2(0, AL1(c) - AL2(c)) - AWin(c) + 1
    /\ j <= i + Max2(0, AL2(c) - AL1(c)) + AWin(c) - 1
    /\ (c.triu => j >= i)

Sub(a, p) == IF IsNegInf(a) THEN NegInf ELSE a - p
\* one cell of the recurrence from its three predecessors (diag, up, left), all possibly NegInf
Cell(c, i, j, diag, up, left) ==
    LET a == Aff(c.s1[i + 1][1] - c.s2[j + 1][1])
        prev == Max3(diag, Sub(up, c.pen), Sub(left, c.pen))
    IN IF IsNegInf(prev) THEN 0            \* no predecessor at all: clipped at zero
       ELSE IF 2 * a < c.tau2
            THEN Max2(0, c.delta + (c.dfnum * prev) \div c.dfden)
            ELSE Max2(0, a + prev)

ABorder0(c) == [j \in 1..(AL2(c) + 1) |-> IF j - 1 <= c.psi[3] THEN 0 ELSE NegInf]
ABorderCol(c, i) == IF i <= c.psi[1] THEN 0 ELSE NegInf

ANextRow(c, prev, i) ==
    LET RECURSIVE Go(_, _)
        Go(j, acc) ==
            IF j = AL2(c) THEN acc
            ELSE LET v == IF ~AInBand(c, i, j) THEN NegInf
                          ELSE Cell(c, i, j, prev[j + 1], prev[j + 2], acc[j + 1])
                 IN Go(j + 1, Append(acc, v))
    IN Go(0, <<ABorderCol(c, i + 1)>>)
RECURSIVE ARows(_, _, _)
ARows(c, acc, i) == IF i = AL1(c) THEN acc ELSE ARows(c, Append(acc, ANextRow(c, acc[i + 1], i)), i + 1)
AffMatrix(c) == ARows(c, <<ABorder0(c)>>, 0)

\* the halvings must be exact at this scale (otherwise the case is outside the exact regime)
ExactRegime(c) ==
    /\ \A i \in 1..AL1(c), j \in 1..AL2(c) : Abs(c.s1[i][1] - c.s2[j][1]) <= 3
    /\ AL1(c) + AL2(c) <= 9

(***************************************************************************)
(* Local-concurrence matches: a history of yielded paths.                  *)
(***************************************************************************)
APathOK(c, M, p) ==       \* p: sequence of <<i, j>> series indices
    /\ Len(p) >= 1
    /\ \A q \in 1..Len(p) : /\ p[q][1] \in 0..(AL1(c) - 1) /\ p[q][2] \in 0..(AL2(c) - 1)
                            /\ M[p[q][1] + 2][p[q][2] + 2] > 0            \* positive in the pristine matrix
    /\ \A q \in 1..(Len(p) - 1) :
          \/ p[q + 1] = <<p[q][1] + 1, p[q][2] + 1>>
          \/ p[q + 1] = <<p[q][1] + 1, p[q][2]>>
          \/ p[q + 1] = <<p[q][1], p[q][2] + 1>>

CellsOf(p) == {p[q] : q \in 1..Len(p)}
\* matches[m] = [path, restart]: a match never reuses a cell consumed since the last restart
\* "traced from a maximum": while nothing is masked (first match of an object or of a restarting call) and no
\* candidate can be discarded for its length (minlen <= 1), the match ends in a cell holding the largest value
MaxCell(c, M) == SetMax({M[i + 1][j + 1] : i \in 1..AL1(c), j \in 1..AL2(c)})
FreshAtMaximum(c, M, mt) ==
    (mt.fresh /\ mt.minlen <= 1 /\ APathOK(c, M, mt.path))
        => LET e == mt.path[Len(mt.path)] IN M[e[1] + 2][e[2] + 2] = MaxCell(c, M)
HistoryOK(c, M, matches) ==
    \A m \in 1..Len(matches) :
       /\ APathOK(c, M, matches[m].path)
       /\ FreshAtMaximum(c, M, matches[m])
       /\ \A e \in 1..(m - 1) :
            (\A z \in (e + 1)..m : ~matches[z].restart) => CellsOf(matches[e].path) \cap CellsOf(matches[m].path) = {}
=============================================================================
