SPECIFICATION Spec
CONSTANTS
  MaxLen = 3
  DVals = {0, 1, 2, 4}
  RVals = {1, 3}
INVARIANT Props
INVARIANT SquashProps
CHECK_DEADLOCK FALSE
