------------------------------ MODULE MC_Compact ------------------------------
(***************************************************************************)
(* Act M for the compact layout: for EVERY (l1, l2) <= MaxLen^2 and every  *)
(* window 0..MaxLen+1 the region-wise layout stores exactly the in-band    *)
(* cells, inside the advertised buffer, and each region's recurrence reads *)
(* the slots of the true predecessors (or border / filler slots).          *)
(***************************************************************************)
EXTENDS Compact

CONSTANT MaxLen
VARIABLES l1, l2, w0
vars == <<l1, l2, w0>>

Init == l1 = 0 /\ l2 = 0 /\ w0 = 0
Next == /\ l1 = 0
        /\ \E a \in 1..MaxLen, b \in 1..MaxLen, w \in 0..(MaxLen + 1) : l1' = a /\ l2' = b /\ w0' = w
Spec == Init /\ [][Next]_vars

p == Parts(l1, l2, w0)
Rows == 0..(l1 - 1)

\* the layout stores exactly the cells of the window band
ColsAreBand == l1 > 0 => \A ri \in Rows : Cols(p, l2, ri) = BandCols(l1, l2, w0, ri)

\* every cell has a slot inside its row (slot 0 is never a cell), hence inside the buffer of
\* the advertised length (l1+1)*width
SlotsInside ==
    l1 > 0 => /\ p.width = (IF w0 = 0 THEN l2 + 1 ELSE Min2(l2 + 1, Abs(l1 - l2) + 2 * p.window + 1))
              /\ \A ri \in Rows : \A ci \in Cols(p, l2, ri) :
                    /\ Slot(p, l2, ri, ci) \in 1..(p.width - 1)
                    /\ Loc(p, l2, ri, ci) \in 0..(p.length - 1)

NotACell(r, s) == s \in 0..(p.width - 1) /\ (r = 0 \/ SlotHolds(p, l1, l2, r, s)[1] # "cell")

\* the recurrence of each region reads the right slots
PredsOK ==
    l1 > 0 =>
      \A ri \in Rows : \A ci \in Cols(p, l2, ri) :
        LET s == Slot(p, l2, ri, ci)
            sd == s + DiagOff(p, ri)
            su == s + UpOff(p, ri)
        IN /\ \* left neighbour, same row
              IF (ci - 1) \in Cols(p, l2, ri) THEN Slot(p, l2, ri, ci - 1) = s - 1
              ELSE s - 1 >= 0 /\ SlotHolds(p, l1, l2, ri + 1, s - 1)[1] # "cell"
                   /\ (ci = 0 => SlotHolds(p, l1, l2, ri + 1, s - 1)[1] = "border")
           /\ \* diagonal and vertical predecessor, previous matrix row (row 0 is stored as is)
              IF ri = 0 THEN sd = ci /\ su = ci + 1 /\ su <= p.width - 1
              ELSE /\ IF (ci - 1) \in Cols(p, l2, ri - 1) THEN Slot(p, l2, ri - 1, ci - 1) = sd
                      ELSE /\ NotACell(ri, sd)
                           /\ (ci = 0 => SlotHolds(p, l1, l2, ri, sd)[1] = "border")
                   /\ IF ci \in Cols(p, l2, ri - 1) THEN Slot(p, l2, ri - 1, ci) = su
                      ELSE NotACell(ri, su)

\* rows that store the last column store it at one and the same slot (psi epilogue)
LastColumnFixed ==
    l1 > 0 => \A a \in Rows, b \in Rows :
                ((l2 - 1) \in Cols(p, l2, a) /\ (l2 - 1) \in Cols(p, l2, b))
                   => Slot(p, l2, a, l2 - 1) = Slot(p, l2, b, l2 - 1)

\* Layout.tla (integers only, the module the unbounded proofs of LayoutProofs.tla are about) defines the same
\* layout as Compact.tla: checked here on every instance of the scope
LY == INSTANCE Layout
LayoutAgrees ==
    l1 > 0 =>
      /\ p.window = LY!PWindow(l1, l2, w0) /\ p.width = LY!PWidth(l1, l2, w0)
      /\ p.ri1 = LY!PRi1(l1, l2, w0) /\ p.ri2 = LY!PRi2(l1, l2, w0) /\ p.ri3 = LY!PRi3(l1, l2, w0)
      /\ \A ri \in Rows :
            /\ RowMinCi(p, l2, ri) = LY!PRowMinCi(l1, l2, w0, ri)
            /\ RowMaxCi(p, l2, ri) = LY!PRowMaxCi(l1, l2, w0, ri)
            /\ RowStart(p, ri) = LY!PRowStart(l1, l2, w0, ri)
            /\ \A ci \in 0..(l2 - 1) :
                  /\ Slot(p, l2, ri, ci) = LY!PSlot(l1, l2, w0, ri, ci)
                  /\ (ci \in BandCols(l1, l2, w0, ri)
                        <=> LY!InBandL(ri, ci, l1, l2, IF w0 = 0 THEN Max2(l1, l2) ELSE w0))
                  /\ (ci \in BandCols(l1, l2, w0, ri)
                        <=> (ci >= LY!JStart(ri, l1, l2, IF w0 = 0 THEN Max2(l1, l2) ELSE w0)
                             /\ ci < LY!JEnd(ri, l1, l2, IF w0 = 0 THEN Max2(l1, l2) ELSE w0)))

\* the full matrix can serve as the compact buffer exactly when no row is shifted
IdentityLayout == \A ri \in Rows : \A ci \in Cols(p, l2, ri) : Slot(p, l2, ri, ci) = ci + 1
ReuseDecision == l1 > 0 => ((p.width = l2 + 1 /\ p.ri2 = l1) => IdentityLayout)
=============================================================================
