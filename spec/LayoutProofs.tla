---------------------------- MODULE LayoutProofs ----------------------------
(***************************************************************************)
(* Machine-checked (tlapm, SMT back end) for ALL series lengths and        *)
(* windows -- TLC checks the same statements on small instances only       *)
(* (MC_DTWCore Laws, MC_Compact, MC_Layout).                               *)
(***************************************************************************)
EXTENDS Layout, TLAPS

\* C10: the band of (s1, s2) is the mirror image of the band of (s2, s1) -- what makes DTW symmetric
\* and mirroring the upper triangle of a distance matrix valid, for unequal lengths too
THEOREM BandSymmetric ==
    \A i, j, l1, l2, w \in Int : InBandL(i, j, l1, l2, w) <=> InBandL(j, i, l2, l1, w)
  BY DEF InBandL, Mx

\* ... and so are the psi-relaxed corners when the per-series psi entries are swapped along with the series,
\* and the step relation: transposing an admissible path of (s1, s2, psi) gives an admissible path of
\* (s2, s1, swapped psi) with the same cells, hence the same cost
THEOREM CornersSymmetric ==
    ASSUME NEW i \in Int, NEW j \in Int, NEW l1 \in Int, NEW l2 \in Int,
           NEW p1b \in Int, NEW p1e \in Int, NEW p2b \in Int, NEW p2e \in Int
    PROVE  /\ StartOKL(i, j, p1b, p2b) <=> StartOKL(j, i, p2b, p1b)
           /\ EndOKL(i, j, l1, l2, p1e, p2e) <=> EndOKL(j, i, l2, l1, p2e, p1e)
  BY Z3 DEF StartOKL, EndOKL

THEOREM StepsSymmetric ==
    ASSUME NEW i \in Int, NEW j \in Int, NEW i2 \in Int, NEW j2 \in Int
    PROVE  IsStepL(i, j, i2, j2) <=> IsStepL(j, i, j2, i2)
  BY Z3 DEF IsStepL

\* C10 monotonicity: a larger window or a larger psi entry only ADDS cells / start points / end points, so the
\* set of admissible paths grows and the optimum cannot increase
THEOREM RelaxationsOnlyAdd ==
    ASSUME NEW i \in Int, NEW j \in Int, NEW l1 \in Int, NEW l2 \in Int, NEW w \in Int,
           NEW p1b \in Int, NEW p1e \in Int, NEW p2b \in Int, NEW p2e \in Int
    PROVE  /\ InBandL(i, j, l1, l2, w) => InBandL(i, j, l1, l2, w + 1)
           /\ StartOKL(i, j, p1b, p2b) => (StartOKL(i, j, p1b + 1, p2b) /\ StartOKL(i, j, p1b, p2b + 1))
           /\ EndOKL(i, j, l1, l2, p1e, p2e)
                => (EndOKL(i, j, l1, l2, p1e + 1, p2e) /\ EndOKL(i, j, l1, l2, p1e, p2e + 1))
<1>1. InBandL(i, j, l1, l2, w) => InBandL(i, j, l1, l2, w + 1)  BY Z3 DEF InBandL, Mx
<1>2. StartOKL(i, j, p1b, p2b) => (StartOKL(i, j, p1b + 1, p2b) /\ StartOKL(i, j, p1b, p2b + 1))
  BY Z3 DEF StartOKL
<1>3. EndOKL(i, j, l1, l2, p1e, p2e) => (EndOKL(i, j, l1, l2, p1e + 1, p2e) /\ EndOKL(i, j, l1, l2, p1e, p2e + 1))
  BY Z3 DEF EndOKL
<1>4. QED BY <1>1, <1>2, <1>3

\* window 1 on equal lengths leaves exactly the diagonal (DTW = Euclidean distance)
THEOREM WindowOneIsDiagonal ==
    ASSUME NEW i \in Int, NEW j \in Int, NEW l \in Int
    PROVE  InBandL(i, j, l, l, 1) <=> i = j
  BY Z3 DEF InBandL, Mx

\* the column loop j_start .. j_end-1 visits exactly the in-band columns of the row
THEOREM LoopIsBand ==
    ASSUME NEW i \in Int, NEW j \in Int, NEW l1 \in Int, NEW l2 \in Int, NEW w \in Int
    PROVE  (j >= JStart(i, l1, l2, w) /\ j < JEnd(i, l1, l2, w))
            <=> (j >= 0 /\ j < l2 /\ InBandL(i, j, l1, l2, w))
<1>1. j >= JStart(i, l1, l2, w) <=> (j >= 0 /\ j >= i - Mx(0, l1 - l2) - w + 1)
  BY Z3 DEF JStart, Mx
<1>2. j < JEnd(i, l1, l2, w) <=> (j < l2 /\ j <= i + Mx(0, l2 - l1) + w - 1)
  BY Z3 DEF JEnd, Mx, Mn
<1>3. QED BY <1>1, <1>2 DEF InBandL

\* the band reaches the corner: the last cell of the last row is inside it (a path exists for every window)
THEOREM CornerInBand ==
    ASSUME NEW l1 \in Int, NEW l2 \in Int, NEW w \in Int, l1 >= 1, l2 >= 1, w >= 1
    PROVE  InBandL(l1 - 1, l2 - 1, l1, l2, w)
  BY Z3 DEF InBandL, Mx

\* C08 / C01: the rolling buffer of dtw.distance -- every index of the recurrence, for every in-band
\* cell of every row, lies inside its row of `length' slots (slot 0 is only ever read)
THEOREM RollingIndicesInside ==
    ASSUME NEW i \in Int, NEW j \in Int, NEW l1 \in Int, NEW l2 \in Int, NEW w \in Int,
           l1 >= 1, l2 >= 1, w >= 1, i >= 0, i < l1,
           j >= JStart(i, l1, l2, w), j < JEnd(i, l1, l2, w)
    PROVE  /\ RollWrite(i, j, l1, l2, w) >= 1 /\ RollWrite(i, j, l1, l2, w) < RollLength(l1, l2, w)
           /\ RollLeft(i, j, l1, l2, w) >= 0 /\ RollLeft(i, j, l1, l2, w) < RollLength(l1, l2, w)
           /\ RollDiag(i, j, l1, l2, w) >= 0 /\ RollDiag(i, j, l1, l2, w) < RollLength(l1, l2, w)
           /\ RollUp(i, j, l1, l2, w) >= 1 /\ RollUp(i, j, l1, l2, w) < RollLength(l1, l2, w)
<1> DEFINE d == Mx(0, l1 - l2)
<1> DEFINE e == Mx(0, l2 - l1)
<1> DEFINE X == Ab(l1 - l2) + 2 * w + 1
<1>1. d \in Int /\ e \in Int /\ d >= 0 /\ e >= 0 /\ d + e = Ab(l1 - l2)
  BY Z3 DEF Mx, Ab
<1>2. j >= 0 /\ j >= i - d - w + 1 /\ j < l2 /\ j <= i + e + w - 1
  BY Z3 DEF JStart, JEnd, Mx, Mn
<1>3. RollLength(l1, l2, w) = Mn(l2 + 1, X) /\ X \in Int
  BY <1>1, Z3 DEF RollLength, Ab
<1>4. CASE l2 + 1 <= X
  <2>1. RollLength(l1, l2, w) = l2 + 1  BY <1>3, <1>4, Z3 DEF Mn
  <2>2. RollSkip(i, l1, l2, w) = 0 /\ RollSkipPrev(i, l1, l2, w) = 0  BY <2>1 DEF RollSkip, RollSkipPrev
  <2>3. QED BY <2>1, <2>2, <1>2, Z3 DEF RollWrite, RollLeft, RollDiag, RollUp
<1>5. CASE ~(l2 + 1 <= X)
  <2>1. RollLength(l1, l2, w) = X /\ X # l2 + 1  BY <1>3, <1>5, Z3 DEF Mn
  <2>2. RollSkip(i, l1, l2, w) = Mx(0, i - d - w + 1)  BY <2>1 DEF RollSkip
  <2>3. RollSkipPrev(i, l1, l2, w) = IF i = 0 THEN 0 ELSE Mx(0, i - 1 - d - w + 1)  BY <2>1 DEF RollSkip, RollSkipPrev
  <2> DEFINE s == RollSkip(i, l1, l2, w)
  <2> DEFINE sp == RollSkipPrev(i, l1, l2, w)
  <2>4. s \in Int /\ s >= 0 /\ s >= i - d - w + 1 /\ (s = 0 \/ s = i - d - w + 1)
    BY <2>2, <1>1, Z3 DEF Mx
  <2>5. sp \in Int /\ sp >= 0 /\ sp >= i - d - w /\ (sp = 0 \/ sp = i - d - w)
    BY <2>3, <1>1, Z3 DEF Mx
  <2>6. RollWrite(i, j, l1, l2, w) = j + 1 - s /\ RollLeft(i, j, l1, l2, w) = j - s
        /\ RollDiag(i, j, l1, l2, w) = j - sp /\ RollUp(i, j, l1, l2, w) = j + 1 - sp
    BY DEF RollWrite, RollLeft, RollDiag, RollUp
  <2>7. X = d + e + 2 * w + 1  BY <1>1
  <2> HIDE DEF s, sp, d, e, X
  <2>8. QED BY <2>1, <2>4, <2>5, <2>6, <2>7, <1>1, <1>2, Z3
<1>6. QED BY <1>4, <1>5

\* the slot the recurrence reads as "up" / "diagonal" / "left" is the slot written for that cell
THEOREM RollingReadsWhatWasWritten ==
    ASSUME NEW i \in Int, NEW j \in Int, NEW l1 \in Int, NEW l2 \in Int, NEW w \in Int, i >= 1
    PROVE  /\ RollUp(i, j, l1, l2, w) = RollWrite(i - 1, j, l1, l2, w)
           /\ RollDiag(i, j, l1, l2, w) = RollWrite(i - 1, j - 1, l1, l2, w)
           /\ RollLeft(i, j, l1, l2, w) = RollWrite(i, j - 1, l1, l2, w)
<1> DEFINE sp == RollSkip(i - 1, l1, l2, w)
<1> DEFINE s == RollSkip(i, l1, l2, w)
<1>1. sp \in Int /\ s \in Int  BY Z3 DEF RollSkip, RollLength, Mx, Mn, Ab
<1>2. RollSkipPrev(i, l1, l2, w) = sp  BY Z3 DEF RollSkipPrev
<1>3. /\ RollUp(i, j, l1, l2, w) = j + 1 - sp /\ RollWrite(i - 1, j, l1, l2, w) = j + 1 - sp
      /\ RollDiag(i, j, l1, l2, w) = j - sp /\ RollWrite(i - 1, j - 1, l1, l2, w) = (j - 1) + 1 - sp
      /\ RollLeft(i, j, l1, l2, w) = j - s /\ RollWrite(i, j - 1, l1, l2, w) = (j - 1) + 1 - s
  BY <1>2 DEF RollUp, RollDiag, RollLeft, RollWrite
<1> HIDE DEF sp, s
<1>4. QED BY <1>1, <1>3, Z3

\* the result is read from the slot of the corner cell
THEOREM RollingFinalIsCorner ==
    ASSUME NEW l1 \in Int, NEW l2 \in Int, NEW w \in Int, l1 >= 1, l2 >= 1, w >= 1
    PROVE  RollFinal(l1, l2, w) = RollWrite(l1 - 1, l2 - 1, l1, l2, w)
<1> DEFINE s == RollSkip(l1 - 1, l1, l2, w)
<1>1. s \in Int  BY Z3 DEF RollSkip, RollLength, Mx, Mn, Ab
<1>2. Mn(l2, l2 + w - 1) = l2  BY Z3 DEF Mn
<1>3. RollFinal(l1, l2, w) = l2 - s /\ RollWrite(l1 - 1, l2 - 1, l1, l2, w) = (l2 - 1) + 1 - s
  BY <1>2 DEF RollFinal, RollWrite
<1> HIDE DEF s
<1>4. QED BY <1>1, <1>3, Z3

\* C04 / C08: the compact matrix stores exactly the band, and every stored cell has a slot 1 .. width-1 of
\* its row (slot 0 is border or filler), so the advertised (l1+1) * width elements suffice for every length
\* and window.  w is the window of the band predicate (0 = none stands for max(l1, l2)).
THEOREM CompactLayout ==
    ASSUME NEW l1 \in Int, NEW l2 \in Int, NEW w0 \in Int, NEW ri \in Int, NEW ci \in Int, NEW w \in Int,
           l1 >= 1, l2 >= 1, w0 >= 0, ri >= 0, ri < l1,
           w = IF w0 = 0 THEN Mx(l1, l2) ELSE w0
    PROVE  /\ (ci >= PRowMinCi(l1, l2, w0, ri) /\ ci < PRowMaxCi(l1, l2, w0, ri))
               <=> (ci >= 0 /\ ci < l2 /\ InBandL(ri, ci, l1, l2, w))
           /\ (ci >= PRowMinCi(l1, l2, w0, ri) /\ ci < PRowMaxCi(l1, l2, w0, ri))
               => (PSlot(l1, l2, w0, ri, ci) >= 1 /\ PSlot(l1, l2, w0, ri, ci) < PWidth(l1, l2, w0))
<1> DEFINE W == PWindow(l1, l2, w0)
<1> DEFINE d == PLdiffr(l1, l2)
<1> DEFINE e == PLdiffc(l1, l2)
<1> DEFINE ol == POl(l1, l2, w0)
<1> DEFINE or == POr(l1, l2, w0)
<1> DEFINE r1 == PRi1(l1, l2, w0)
<1> DEFINE r2 == PRi2(l1, l2, w0)
<1> DEFINE r3 == PRi3(l1, l2, w0)
<1> DEFINE wd == PWidth(l1, l2, w0)
<1>1. /\ W \in Int /\ w \in Int /\ d \in Int /\ e \in Int /\ d >= 0 /\ e >= 0
      /\ (d = 0 \/ e = 0) /\ d - e = l1 - l2 /\ PLdiff(l1, l2) = d + e
      /\ W >= 1 /\ w >= W /\ W <= Mx(l1, l2) /\ (w > W => W = Mx(l1, l2))
      /\ Mx(l1, l2) >= l1 /\ Mx(l1, l2) >= l2 /\ (Mx(l1, l2) = l1 \/ Mx(l1, l2) = l2)
      /\ Mx(0, l1 - l2) = d /\ Mx(0, l2 - l1) = e
  BY Z3 DEF PWindow, PLdiffr, PLdiffc, PLdiff, Mx, Mn, Ab
<1>2. InBandL(ri, ci, l1, l2, w) <=> (ci >= ri - d - w + 1 /\ ci <= ri + e + w - 1)
  BY <1>1 DEF InBandL
<1>3. wd \in Int /\ (wd = l2 + 1 \/ (w0 # 0 /\ wd = d + e + 2 * W + 1 /\ wd <= l2 + 1)) /\ wd <= l2 + 1
      /\ (w0 # 0 => wd <= d + e + 2 * W + 1)
  BY <1>1, Z3 DEF PWidth, Mn
<1>4. CASE W + d > l1
  <2>1. ol = l1 + 1 /\ or = 0  BY <1>1, <1>4, Z3 DEF POl, POr, Mn, Mx
  <2>2. r1 = 0 /\ r2 = l1 /\ r3 = l1  BY <2>1, Z3 DEF PRi1, PRi2, PRi3, Mn, Mx
  <2>3. PRegion(l1, l2, w0, ri) = 2  BY <2>2 DEF PRegion
  <2>4. PRowMinCi(l1, l2, w0, ri) = 0 /\ PRowMaxCi(l1, l2, w0, ri) = l2 /\ PRowStart(l1, l2, w0, ri) = 1
    BY <2>3 DEF PRowMinCi, PRowMaxCi, PRowStart
  <2>5. PSlot(l1, l2, w0, ri, ci) = 1 + ci  BY <2>4 DEF PSlot
  <2>6. wd = l2 + 1  BY <1>1, <1>3, <1>4, Z3
  <2> HIDE DEF W, d, e, ol, or, r1, r2, r3
  <2>7. QED BY <1>1, <1>2, <1>4, <2>4, <2>5, <2>6, Z3
<1>5. CASE W + d <= l1
  <2>1. ol = W + d /\ or = l1 + 1 - W - d /\ or >= 1  BY <1>1, <1>5, Z3 DEF POl, POr, Mn, Mx
  <2>2. r1 = Mn(ol, or) /\ r2 = ol /\ r3 = Mx(ol, or)  BY <1>1, <1>5, <2>1, Z3 DEF PRi1, PRi2, PRi3, Mn, Mx
  <2>2b. r1 \in Int /\ r2 \in Int /\ r3 \in Int /\ ol \in Int /\ or \in Int /\ r1 <= r2 /\ r2 <= r3
    BY <2>2, <2>1, <1>1, Z3 DEF Mn, Mx
  <2>3. CASE ri < r1
    <3>1. PRegion(l1, l2, w0, ri) = 1  BY <2>3 DEF PRegion
    <3>2. PRowMinCi(l1, l2, w0, ri) = 0 /\ PRowMaxCi(l1, l2, w0, ri) = W + e + ri /\ PRowStart(l1, l2, w0, ri) = 1
      BY <3>1 DEF PRowMinCi, PRowMaxCi, PRowStart
    <3>3. PSlot(l1, l2, w0, ri, ci) = 1 + ci  BY <3>2 DEF PSlot
    <3>4. ri < ol /\ ri < or  BY <2>2, <2>3, <2>1, <1>1, Z3 DEF Mn
    <3> HIDE DEF W, d, e, ol, or, r1, r2, r3
    <3>5. QED BY <1>1, <1>2, <1>3, <1>5, <2>1, <3>2, <3>3, <3>4, Z3
  <2>4. CASE ri >= r1 /\ ri < r2
    <3>1. PRegion(l1, l2, w0, ri) = 2  BY <2>4, <2>2b, Z3 DEF PRegion
    <3>2. PRowMinCi(l1, l2, w0, ri) = 0 /\ PRowMaxCi(l1, l2, w0, ri) = l2 /\ PRowStart(l1, l2, w0, ri) = 1
      BY <3>1 DEF PRowMinCi, PRowMaxCi, PRowStart
    <3>3. PSlot(l1, l2, w0, ri, ci) = 1 + ci  BY <3>2 DEF PSlot
    <3>4. ri >= or /\ ri < ol  BY <2>2, <2>4, <2>1, <1>1, Z3 DEF Mn
    <3> HIDE DEF W, d, e, ol, or, r1, r2, r3
    <3>5. QED BY <1>1, <1>2, <1>3, <1>5, <2>1, <3>2, <3>3, <3>4, Z3
  <2>5. CASE ri >= r2 /\ ri < r3
    <3>1. PRegion(l1, l2, w0, ri) = 3  BY <2>5, <2>2b, Z3 DEF PRegion
    <3>2. /\ PRowMinCi(l1, l2, w0, ri) = 1 + (ri - r2)
          /\ PRowMaxCi(l1, l2, w0, ri) = 1 + 2 * W - 1 + (d + e) + (ri - r2)
          /\ PRowStart(l1, l2, w0, ri) = 1
      BY <3>1, <1>1 DEF PRowMinCi, PRowMaxCi, PRowStart
    <3>3. PSlot(l1, l2, w0, ri, ci) = 1 + (ci - (1 + (ri - r2)))  BY <3>2 DEF PSlot
    <3>4. ri >= ol /\ ri < or  BY <2>2, <2>5, <2>1, <1>1, Z3 DEF Mx
    <3> HIDE DEF W, d, e, ol, or, r1, r2, r3
    <3>5. QED BY <1>1, <1>2, <1>3, <1>5, <2>1, <2>2, <3>2, <3>3, <3>4, Z3
  <2>6. CASE ri >= r3
    <3>1. PRegion(l1, l2, w0, ri) = 4  BY <2>6, <2>2b, Z3 DEF PRegion
    <3>2. PDMinCi0(l1, l2, w0) = (IF r2 = r3 THEN Mx(0, r3 + 1 - W - d) ELSE 1 + r3 - r2)
      BY DEF PDMinCi0
    <3>3. /\ PRowMinCi(l1, l2, w0, ri) = PDMinCi0(l1, l2, w0) + (ri - r3)
          /\ PRowMaxCi(l1, l2, w0, ri) = l2
          /\ PRowStart(l1, l2, w0, ri) = (IF r2 = r3 THEN PDMinCi0(l1, l2, w0) + 1 ELSE 2) + (ri - r3)
      BY <3>1 DEF PRowMinCi, PRowMaxCi, PRowStart, PDStart0
    <3>4. ri >= ol /\ ri >= or  BY <2>2, <2>6, <2>1, <1>1, Z3 DEF Mx
    <3>5. PDMinCi0(l1, l2, w0) \in Int /\ PDMinCi0(l1, l2, w0) = r3 + 1 - W - d
      BY <3>2, <2>2, <2>1, <1>1, <1>5, Z3 DEF Mx
    <3>6. PSlot(l1, l2, w0, ri, ci) = PRowStart(l1, l2, w0, ri) + (ci - PRowMinCi(l1, l2, w0, ri))  BY DEF PSlot
    <3> HIDE DEF W, d, e, ol, or, r1, r2, r3
    <3>7. QED BY <1>1, <1>2, <1>3, <1>5, <2>1, <2>2, <3>3, <3>4, <3>5, <3>6, Z3 DEF Mx
  <2>7. QED BY <2>3, <2>4, <2>5, <2>6, <2>2b, Z3
<1>6. QED BY <1>4, <1>5, <1>1
=============================================================================
