SPECIFICATION Spec
CONSTANTS
  MaxLen = 3
  Lo = 0
  Hi = 3
  Costs = {0, 1, 2}
  Triples = FALSE
INVARIANT BellmanSound
INVARIANT BellmanTight
INVARIANT Identity
INVARIANT Symmetric
INVARIANT NonNegative
INVARIANT Separates
INVARIANT MonotoneInCost
CHECK_DEADLOCK FALSE
