\* C03 thorough: PrunedDTW state machine refines the declarative definition (psi-aware design)
SPECIFICATION Spec
CONSTANTS
  MaxLen = 3
  Vals = {0, 1, 3}
  Inners = {"sq"}
  Windows = {0, 1, 2}
  Pens = {0, 1}
  MaxSteps = {0, 2}
  MaxDists = {3, 9}
  Prunes = {FALSE, TRUE}
  PsiMax = 1
  PsiAwarePruning = TRUE
INVARIANT RowsAllowed
INVARIANT PruneSound
INVARIANT ResultCorrect
INVARIANT PruningExact
INVARIANT UBValid
CHECK_DEADLOCK FALSE
