------------------------------- MODULE DTWAlgo -------------------------------
(***************************************************************************)
(* One DTW call as a state machine, shaped like the implementation         *)
(* (dtw.warping_paths / dtw.distance / C dtw_distance, dtw_warping_paths): *)
(* a prologue that writes the psi-relaxed borders, one action per row      *)
(* with the PrunedDTW column bounds sc / ec, and an epilogue that scans    *)
(* the psi-relaxed ends and applies the threshold.                         *)
(*                                                                         *)
(* The declarative half is DTWCore (OptTo, DistSpec).  Invariants state    *)
(* that the algorithm refines it: a cell whose optimum is within the       *)
(* bound holds exactly the optimum, any other cell holds something above   *)
(* the bound, and the result is DistSpec.                                  *)
(*                                                                         *)
(* PsiAwarePruning = TRUE is the design after the fix: commits (ec starts  *)
(* at psi_2b, sc only advances from row psi_1b on).  FALSE is the original *)
(* design; TLC finds the counterexample (kept as a sensitivity self-test). *)
(***************************************************************************)
EXTENDS DTWCore

CONSTANTS MaxLen, Vals, Inners, Windows, Pens, MaxSteps, MaxDists, Prunes, PsiMax, PsiAwarePruning

VARIABLES c,        \* the case (inputs and settings)
          prune,    \* use_pruning
          phase,    \* "pick" | "shape" | "rows" | "done"
          i,        \* next series-1 index to process
          rows,     \* matrix rows computed so far (row 0 = border)
          sc, ec,   \* PrunedDTW column bounds
          out       \* result (internal domain) once phase = "done"

vars == <<c, prune, phase, i, rows, sc, ec, out>>

NoCase == [s1 |-> <<>>, s2 |-> <<>>, inner |-> "sq", w |-> 0, pen |-> 0, ms |-> 0, md |-> 0,
           mld |-> -1, psi |-> <<0, 0, 0, 0>>]
Zeros(n) == [k \in 1..n |-> <<0>>]

\* the bound used for abandoning: max_dist, or the Euclidean distance when pruning
Over(v) == IF prune THEN IsInf(v) \/ v > ED(c) ELSE Exceeds(c, v)

Init == /\ c = NoCase /\ prune = FALSE /\ phase = "pick" /\ i = 0 /\ rows = <<>>
        /\ sc = 0 /\ ec = 0 /\ out = -1

PickShape ==
    /\ phase = "pick"
    /\ \E l1 \in 1..MaxLen, l2 \in 1..MaxLen, inn \in Inners, w \in Windows, pen \in Pens,
          ms \in MaxSteps, md \in MaxDists, pr \in Prunes :
       \E p1b \in 0..Min2(PsiMax, l1), p1e \in 0..Min2(PsiMax, l1),
          p2b \in 0..Min2(PsiMax, l2), p2e \in 0..Min2(PsiMax, l2) :
         /\ c' = [s1 |-> Zeros(l1), s2 |-> Zeros(l2), inner |-> inn, w |-> w, pen |-> pen,
                  ms |-> ms, md |-> IF pr THEN 0 ELSE md, mld |-> -1, psi |-> <<p1b, p1e, p2b, p2e>>]
         /\ ~DegeneratePsi(c')
         /\ prune' = pr
         \* pruning is only offered where the Euclidean distance is a valid upper bound
         /\ pr => (ms = 0 /\ (pen = 0 \/ l1 = l2))
    /\ phase' = "shape"
    /\ UNCHANGED <<i, rows, sc, ec, out>>

Series(n) == [1..n -> {<<v>> : v \in Vals}]

\* choose the values and run the prologue (psi-relaxed first row, column bounds)
PickValuesAndPrologue ==
    /\ phase = "shape"
    /\ \E a \in Series(L1(c)), b \in Series(L2(c)) : c' = [c EXCEPT !.s1 = a, !.s2 = b]
    /\ rows' = <<Border0(c)>>
    /\ sc' = 0
    /\ ec' = IF PsiAwarePruning THEN c.psi[3] ELSE 0
    /\ i' = 0
    /\ phase' = "rows"
    /\ UNCHANGED <<prune, out>>

\* one row of the implementation's loop, including the pruning bookkeeping
RowResult(prev, ii) ==
    LET l1 == L1(c)
        l2 == L2(c)
        w == Win(c)
        pen == Pen(c)
        jstart0 == Max2(0, ii - Max2(0, l1 - l2) - w + 1)
        jend == Min2(l2, ii + Max2(0, l2 - l1) + w)
        jstart == Max2(jstart0, sc)
        RECURSIVE Go(_, _, _, _, _, _)
        \* acc: matrix columns 0..j of the new row; stop: the loop was left by "break"
        Go(j, acc, scn, found, ecn, stop) ==
            IF j = l2 THEN [row |-> acc, sc |-> scn, ecn |-> ecn]
            ELSE IF stop \/ j < jstart \/ j >= jend \/ PD(c, ii, j) > MaxStep(c)
                 THEN Go(j + 1, Append(acc, Inf), scn, found, ecn, stop)
            ELSE LET v == Add(PD(c, ii, j),
                              Min3(prev[j + 1], Add(prev[j + 2], pen), Add(acc[j + 1], pen)))
                 IN IF Over(v)
                    THEN LET scn2 == IF ~found /\ (~PsiAwarePruning \/ ii >= c.psi[1])
                                     THEN j + 1 ELSE scn
                         IN Go(j + 1, Append(acc, v), scn2, found, ecn, j >= ec)
                    ELSE Go(j + 1, Append(acc, v), scn, TRUE, j + 1, FALSE)
    IN Go(0, <<BorderCol(c, ii + 1)>>, sc, FALSE, ii, FALSE)

Row ==
    /\ phase = "rows" /\ i < L1(c)
    /\ LET r == RowResult(rows[i + 1], i)
       IN /\ rows' = Append(rows, r.row)
          /\ sc' = r.sc
          /\ ec' = r.ecn
    /\ i' = i + 1
    /\ UNCHANGED <<c, prune, phase, out>>

\* psi-relaxed end scan and threshold
Epilogue ==
    /\ phase = "rows" /\ i = L1(c)
    /\ LET best == SetMinOr({rows[ij[1] + 2][ij[2] + 2] : ij \in EndCells(c)}, Inf)
       IN out' = IF Over(best) THEN Inf ELSE best
    /\ phase' = "done"
    /\ UNCHANGED <<c, prune, i, rows, sc, ec>>

Next == PickShape \/ PickValuesAndPrologue \/ Row \/ Epilogue
Spec == Init /\ [][Next]_vars

----------------------------------------------------------------------------
\* Refinement of the declarative definition
RowsAllowed ==
    phase \in {"rows", "done"} =>
      LET M == OptMatrix(c)
      IN \A r \in 1..(Len(rows) - 1) : \A j \in 0..(L2(c) - 1) :
            LET e == OptTo(M, r - 1, j)
                g == rows[r + 1][j + 2]
            IN g = e \/ (Over(e) /\ Over(g))

\* a skipped cell is dead: nothing the algorithm leaves uncomputed was within the bound
PruneSound ==
    phase \in {"rows", "done"} =>
      LET M == OptMatrix(c)
      IN \A r \in 1..(Len(rows) - 1) : \A j \in 0..(L2(c) - 1) :
            (IsInf(rows[r + 1][j + 2]) /\ ~IsInf(OptTo(M, r - 1, j))) => Over(OptTo(M, r - 1, j))

ResultCorrect ==
    phase = "done" =>
      LET o == Opt(c)
      IN out = (IF Over(o) THEN Inf ELSE o)

\* with pruning the result is exactly the unpruned optimum (the bound is valid)
PruningExact == (phase = "done" /\ prune) => out = Opt(c)

\* C03's side condition derived rather than assumed
UBValid == (phase \in {"rows", "done"} /\ prune) => Opt(c) <= ED(c)
=============================================================================
