----------------------------- MODULE Hierarchical -----------------------------
(***************************************************************************)
(* Agglomerative clustering on prototypes (clustering.hierarchical).       *)
(*                                                                         *)
(* State: the set of alive prototypes, the cluster of each alive           *)
(* prototype, and the list of merges performed.  The distance between two  *)
(* prototypes never changes; a merge removes one of them.  Which of        *)
(* several minimal pairs is merged, and which side survives, is not fixed  *)
(* (order_hook / merge_hook may decide), so Merge is nondeterministic.     *)
(***************************************************************************)
EXTENDS Common

\* D: symmetric distance function on pairs <<a, b>>, a < b, values in Nat \cup {Inf}; items 0..n-1
Dist(D, a, b) == IF a < b THEN D[<<a, b>>] ELSE D[<<b, a>>]
AlivePairs(alive) == {p \in alive \X alive : p[1] < p[2]}
MinAlive(D, alive) == SetMinOr({D[p] : p \in AlivePairs(alive)}, Inf)

\* a merge of `from' into `to' at distance d is enabled
MergeEnabled(D, alive, maxd, from, to, d) ==
    /\ from \in alive /\ to \in alive /\ from # to
    /\ d = Dist(D, from, to)
    /\ ~IsInf(d) /\ d <= maxd
    /\ d = MinAlive(D, alive)

\* no merge is possible any more
Stuck(D, alive, maxd) == LET m == MinAlive(D, alive) IN IsInf(m) \/ m > maxd

MergeClusters(cl, from, to) ==
    [x \in (DOMAIN cl) \ {from} |-> IF x = to THEN cl[to] \cup cl[from] ELSE cl[x]]

\* postconditions on a result (dictionary prototype -> set of members) for n series
IsPartition(res, n) ==
    /\ UNION {res[x] : x \in DOMAIN res} = 0..(n - 1)
    /\ \A x, y \in DOMAIN res : x # y => res[x] \cap res[y] = {}
    /\ \A x \in DOMAIN res : x \in res[x]

\* a linkage list (sequence of <<left, right, dist>>; new node of row i is n + i - 1) is a single rooted
\* binary tree over n leaves: n-1 rows, every node except the root is a child exactly once
IsTree(link, n) ==
    /\ Len(link) = n - 1
    /\ \A x \in 0..(2 * n - 3) :
         Cardinality({q \in 1..Len(link) : link[q][1] = x}) + Cardinality({q \in 1..Len(link) : link[q][2] = x}) = 1
    /\ \A q \in 1..Len(link) : link[q][1] < n + q - 1 /\ link[q][2] < n + q - 1 /\ link[q][1] # link[q][2]
=============================================================================
