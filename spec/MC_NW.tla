--------------------------------- MODULE MC_NW ---------------------------------
(* Act M: the dynamic programme with its border equals the maximum over all global alignments *)
EXTENDS NW
CONSTANTS MaxLen, Alphabet,
          SubValsP,   \* substitution scores + 3 (cfg files cannot hold negative numbers)
          GapsP       \* gap costs (the gap score is the negated value)
SubVals == {v - 3 : v \in SubValsP}
Gaps == {0 - g : g \in GapsP}
VARIABLES s1, s2, sub, gap, picked
vars == <<s1, s2, sub, gap, picked>>
Seqs == UNION {[1..n -> Alphabet] : n \in 0..MaxLen}
A == Cardinality(Alphabet)
Init == s1 = <<>> /\ s2 = <<>> /\ sub = <<>> /\ gap = 0 /\ picked = FALSE
Next == /\ ~picked /\ picked' = TRUE
        /\ \E a \in Seqs, b \in Seqs : s1' = a /\ s2' = b
        /\ \E g \in Gaps : gap' = g
        \* symmetric substitution tables with the given diagonal / off-diagonal values
        /\ \E dg \in SubVals, od \in SubVals :
              sub' = [x \in 1..A |-> [y \in 1..A |-> IF x = y THEN dg ELSE od]]
Spec == Init /\ [][Next]_vars

DPIsOptimal == picked => MaxScore(sub, gap, s1, s2) = MaxScoreDecl(sub, gap, s1, s2)
\* some alignment attains the optimum and satisfies the consistency clauses
Attained == picked => \E a \in Alignments(s1, s2, Len(s1), Len(s2)) :
               AlignmentClause(sub, gap, s1, s2, [q \in 1..Len(a) |-> a[q][1]], [q \in 1..Len(a) |-> a[q][2]],
                               MaxScore(sub, gap, s1, s2)) = "ok"
=============================================================================
