------------------------------- MODULE Layout -------------------------------
(***************************************************************************)
(* Pure index arithmetic of the two buffers the distance and matrix        *)
(* kernels work in, over the integers only (no sequences, no recursion),   *)
(* so that the TLA+ proof system can reason about ALL sizes:               *)
(*                                                                         *)
(*  - the window band (DTWCore.InBand / dtw.py j_start, j_end);            *)
(*  - the rolling two-row buffer of dtw.distance (length, skip, the four   *)
(*    indices of the recurrence and the final reads);                      *)
(*  - the compact band layout of the C warping-paths matrix (a copy of the *)
(*    definitions of Compact.tla; MC_Compact checks with TLC that the two  *)
(*    agree on every instance of its scope).                               *)
(*                                                                         *)
(* LayoutProofs.tla proves, for all lengths and windows, what TLC checks   *)
(* on small instances: band symmetry, and that every index stays inside    *)
(* its row of the buffer.                                                  *)
(***************************************************************************)
EXTENDS Integers

Mn(a, b) == IF a <= b THEN a ELSE b
Mx(a, b) == IF a >= b THEN a ELSE b
Ab(x) == IF x < 0 THEN 0 - x ELSE x

\* ------------------------------------------------------------------ the band
\* cell (i, j), 0-based, of an l1 x l2 problem with (normalised) window w >= 1
InBandL(i, j, l1, l2, w) == /\ j >= i - Mx(0, l1 - l2) - w + 1
                            /\ j <= i + Mx(0, l2 - l1) + w - 1
JStart(i, l1, l2, w) == Mx(0, i - Mx(0, l1 - l2) - w + 1)
JEnd(i, l1, l2, w) == Mn(l2, i + Mx(0, l2 - l1) + w)          \* one past the last column

\* psi-relaxed corners (DTWCore.StartOK / EndOK) and the three steps of a warping path
StartOKL(i, j, p1b, p2b) == (i = 0 /\ j <= p2b) \/ (j = 0 /\ i <= p1b)
EndOKL(i, j, l1, l2, p1e, p2e) == (i = l1 - 1 /\ j >= l2 - 1 - p2e) \/ (j = l2 - 1 /\ i >= l1 - 1 - p1e)
IsStepL(i, j, i2, j2) == \/ i2 = i + 1 /\ j2 = j + 1
                         \/ i2 = i + 1 /\ j2 = j
                         \/ i2 = i /\ j2 = j + 1

\* ------------------------------------------------------------------ rolling buffer of dtw.distance
RollLength(l1, l2, w) == Mn(l2 + 1, Ab(l1 - l2) + 2 * (w - 1) + 1 + 1 + 1)
RollSkip(i, l1, l2, w) ==
    IF RollLength(l1, l2, w) = l2 + 1 THEN 0 ELSE Mx(0, i - Mx(0, l1 - l2) - w + 1)
RollSkipPrev(i, l1, l2, w) == IF i = 0 THEN 0 ELSE RollSkip(i - 1, l1, l2, w)
\* positions inside a row of the buffer
RollWrite(i, j, l1, l2, w) == j + 1 - RollSkip(i, l1, l2, w)
RollLeft(i, j, l1, l2, w) == j - RollSkip(i, l1, l2, w)
RollDiag(i, j, l1, l2, w) == j - RollSkipPrev(i, l1, l2, w)
RollUp(i, j, l1, l2, w) == j + 1 - RollSkipPrev(i, l1, l2, w)
\* the cell the result is read from after the last row
RollFinal(l1, l2, w) == Mn(l2, l2 + w - 1) - RollSkip(l1 - 1, l1, l2, w)

\* ------------------------------------------------------------------ compact matrix (dtw_wps_parts), see Compact.tla
PWindow(l1, l2, w0) == IF w0 = 0 THEN Mx(l1, l2) ELSE Mn(w0, Mx(l1, l2))
PLdiff(l1, l2) == Ab(l1 - l2)
PLdiffr(l1, l2) == IF l1 > l2 THEN PLdiff(l1, l2) ELSE 0
PLdiffc(l1, l2) == IF l1 > l2 THEN 0 ELSE PLdiff(l1, l2)
PWidth(l1, l2, w0) == IF w0 = 0 THEN l2 + 1 ELSE Mn(l2 + 1, PLdiff(l1, l2) + 2 * PWindow(l1, l2, w0) + 1)
POl(l1, l2, w0) == Mn(PWindow(l1, l2, w0) + PLdiffr(l1, l2), l1 + 1)
POr(l1, l2, w0) == IF PWindow(l1, l2, w0) + PLdiffr(l1, l2) <= l1
                   THEN Mx(l1 + 1 - PWindow(l1, l2, w0) - PLdiffr(l1, l2), 0) ELSE 0
PRi1(l1, l2, w0) == Mn(l1, Mn(POl(l1, l2, w0), POr(l1, l2, w0)))
PRi2(l1, l2, w0) == Mn(l1, POl(l1, l2, w0))
PRi3(l1, l2, w0) == Mn(l1, Mx(POl(l1, l2, w0), POr(l1, l2, w0)))

\* region of series row ri: 1 = A, 2 = B, 3 = C, 4 = D
PRegion(l1, l2, w0, ri) == IF ri < PRi1(l1, l2, w0) THEN 1 ELSE IF ri < PRi2(l1, l2, w0) THEN 2
                           ELSE IF ri < PRi3(l1, l2, w0) THEN 3 ELSE 4
PDMinCi0(l1, l2, w0) == IF PRi2(l1, l2, w0) = PRi3(l1, l2, w0)
                        THEN Mx(0, PRi3(l1, l2, w0) + 1 - PWindow(l1, l2, w0) - PLdiffr(l1, l2))
                        ELSE 1 + PRi3(l1, l2, w0) - PRi2(l1, l2, w0)
PDStart0(l1, l2, w0) == IF PRi2(l1, l2, w0) = PRi3(l1, l2, w0) THEN PDMinCi0(l1, l2, w0) + 1 ELSE 2
PRowMinCi(l1, l2, w0, ri) ==
    IF PRegion(l1, l2, w0, ri) <= 2 THEN 0
    ELSE IF PRegion(l1, l2, w0, ri) = 3 THEN 1 + (ri - PRi2(l1, l2, w0))
    ELSE PDMinCi0(l1, l2, w0) + (ri - PRi3(l1, l2, w0))
PRowMaxCi(l1, l2, w0, ri) ==
    IF PRegion(l1, l2, w0, ri) = 1 THEN PWindow(l1, l2, w0) + PLdiffc(l1, l2) + ri
    ELSE IF PRegion(l1, l2, w0, ri) = 3
         THEN 1 + 2 * PWindow(l1, l2, w0) - 1 + PLdiff(l1, l2) + (ri - PRi2(l1, l2, w0))
    ELSE l2
PRowStart(l1, l2, w0, ri) ==
    IF PRegion(l1, l2, w0, ri) <= 3 THEN 1 ELSE PDStart0(l1, l2, w0) + (ri - PRi3(l1, l2, w0))
PSlot(l1, l2, w0, ri, ci) == PRowStart(l1, l2, w0, ri) + (ci - PRowMinCi(l1, l2, w0, ri))
=============================================================================
