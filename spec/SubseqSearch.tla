----------------------------- MODULE SubseqSearch -----------------------------
(***************************************************************************)
(* k-nearest-neighbour search of a query in a list of candidate series.    *)
(*                                                                         *)
(* Declarative half: TopK = the k smallest eligible distances (eligible =  *)
(* not above max_dist), ascending; indices are free up to ties.            *)
(* Algorithmic half (shaped like SubsequenceSearch.align): a bounded heap  *)
(* with a running threshold that is handed to the distance routine as      *)
(* max_dist and compared with the lower bound; results are cached and      *)
(* reused for a later call with a smaller k.                               *)
(* MC_SubseqSearch checks that the algorithm refines TopK for all abstract *)
(* distance/lower-bound vectors and all call histories of the slice.       *)
(***************************************************************************)
EXTENDS Common

\* D: sequence of distances (Inf = no alignment), M: threshold (Inf = none).  Thresholds are compared
\* with "<=": a distance equal to the bound is kept.
Eligible(D, M) == {i \in 1..Len(D) : ~IsInf(D[i]) /\ D[i] <= M}

\* ascending sequence of the values D[i], i in S (with multiplicity)
RECURSIVE SortedVals(_, _)
SortedVals(D, S) == IF S = {} THEN <<>>
                    ELSE LET m == CHOOSE i \in S : \A j \in S : D[i] <= D[j]
                         IN <<D[m]>> \o SortedVals(D, S \ {m})
Take(s, n) == IF n >= Len(s) THEN s ELSE SubSeq(s, 1, n)

\* the answer to "k best": distances only (k = -1 means all)
TopKDist(D, M, k) == LET all == SortedVals(D, Eligible(D, M)) IN IF k < 0 THEN all ELSE Take(all, k)

\* a reported answer ans = sequence of <<distance, index>> (index 0-based)
AnswerOK(D, M, k, ans) ==
    /\ [z \in 1..Len(ans) |-> ans[z][1]] = TopKDist(D, M, k)
    /\ \A z \in 1..Len(ans) : ans[z][2] + 1 \in Eligible(D, M) /\ D[ans[z][2] + 1] = ans[z][1]
    /\ \A y, z \in 1..Len(ans) : y # z => ans[y][2] # ans[z][2]
=============================================================================
