\* C01 quick (c): three inner distances x max_step x max_length_diff x psi entries <= 1
SPECIFICATION Spec
CONSTANTS
  MaxLen = 3
  Vals = {0, 2}
  Inners = {"sq", "eu", "cu"}
  Windows = {0, 2}
  Pens = {0, 1}
  MaxSteps = {0, 2}
  MaxDists = {0}
  MLDs = {99, 1}
  PsiMax = 1
  TinyLen = 4
INVARIANT CellwiseOptimal
INVARIANT DistanceOptimal
INVARIANT EnumerationSound
CHECK_DEADLOCK FALSE
