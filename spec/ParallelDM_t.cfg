\* all interleavings, every block, n <= 4, three threads, all loop scalars private
SPECIFICATION Spec
CONSTANTS
  MaxN = 4
  NThreads = 3
  SharedVars = {}
INVARIANT InBounds
INVARIANT NoDoubleWrite
INVARIANT SerialEquivalent
CHECK_DEADLOCK FALSE
