------------------------------ MODULE Similarity ------------------------------
(***************************************************************************)
(* Distance-to-similarity transforms and squashing functions               *)
(* (dtaidistance.similarity).  The specification consists of               *)
(*  - the parameter-resolution table (which parameter is given, which is   *)
(*    derived from the data, and how), and                                 *)
(*  - per method the value as an exact rational, or - for the methods      *)
(*    built on exp - the ARGUMENT of exp as an exact rational together     *)
(*    with the lemma that x |-> e^x is increasing with e^0 = 1.            *)
(* Distances are natural numbers; parameters are rationals <<num, den>>.   *)
(* "None" for a parameter is <<0, 0>>.                                     *)
(***************************************************************************)
EXTENDS Common

None == <<0, 0>>
IsNone(p) == p[2] = 0
Rat(n) == <<n, 1>>
RMul(a, b) == <<a[1] * b[1], a[2] * b[2]>>
RAdd(a, b) == <<a[1] * b[2] + b[1] * a[2], a[2] * b[2]>>
RNeg(a) == <<0 - a[1], a[2]>>
RInv(a) == IF a[1] > 0 THEN <<a[2], a[1]>> ELSE <<0 - a[2], 0 - a[1]>>
RZero(a) == a[1] = 0
RPos(a) == a[1] > 0

DMax(D) == SeqMax(D)
DMin(D) == SeqMin(D)

\* ---- parameter resolution (no cover_quantile) -------------------------------------------------
\* distance_to_similarity: resolved r (and a for reciprocal)
D2S_R(method, D, r) ==
    IF ~IsNone(r) THEN r
    ELSE CASE method \in {"exponential", "gaussian"} -> IF DMax(D) = 0 THEN Rat(1) ELSE Rat(DMax(D))
           [] method = "reciprocal" -> Rat(1)
           [] method = "reverse" -> IF DMin(D) + DMax(D) = 0 THEN Rat(1) ELSE Rat(DMin(D) + DMax(D))
D2S_A(a) == IF IsNone(a) THEN Rat(1) ELSE a

\* ---- values -----------------------------------------------------------------------------------
\* methods with an exact rational value
D2S_Value(method, d, r, a) ==
    CASE method = "reciprocal" -> RInv(RAdd(r, RMul(Rat(d), a)))       \* 1 / (r + D a)
      [] method = "reverse" -> RMul(RAdd(r, RNeg(Rat(d))), RInv(r))    \* (r - D) / r
\* methods S = exp(arg): the argument
D2S_Arg(method, d, r) ==
    CASE method = "exponential" -> RNeg(RMul(Rat(d), RInv(r)))                          \* -D / r
      [] method = "gaussian" -> RNeg(RMul(Rat(d * d), RInv(RMul(r, r))))               \* -D^2 / r^2

\* squash(X) = G(arg): logistic 1/(1+b^-arg'), gaussian 1-b^arg, exponential 1-b^arg
Sq_X0(method, X, x0, sum, n) ==     \* mean of X as rational when x0 is not given (logistic only)
    IF method # "logistic" THEN Rat(0) ELSE IF IsNone(x0) THEN <<sum, n>> ELSE x0
Sq_R(method, x0r, r) ==
    IF ~IsNone(r) THEN r
    ELSE IF method = "logistic" THEN (IF RZero(x0r) THEN Rat(1) ELSE RMul(x0r, <<1, 6>>)) ELSE Rat(1)
Sq_Arg(method, x, x0r, r) ==
    CASE method = "logistic" -> RMul(RAdd(Rat(x), RNeg(x0r)), RInv(r))                  \* (X - x0) / r
      [] method = "gaussian" -> RNeg(RMul(Rat(x * x), RInv(RMul(r, r))))               \* -(X)^2 / r^2
      [] method = "exponential" -> RNeg(RMul(Rat(x), RInv(r)))                          \* -X / r

\* ---- the promised properties, at the level of values / arguments ------------------------------
\* (exp is increasing and exp(0) = 1: S in (0, 1] iff arg <= 0; S maximal (= 1) iff arg = 0)
D2S_Props(method, D, rgiven, agiven) ==
    LET r == D2S_R(method, D, rgiven)
        a == D2S_A(agiven)
        idx == 1..Len(D)
    IN IF method \in {"exponential", "gaussian"}
       THEN /\ RPos(r)
            /\ \A i, j \in idx : D[i] <= D[j] => RatLe(D2S_Arg(method, D[j], r), D2S_Arg(method, D[i], r))
            /\ \A i \in idx : RatLe(D2S_Arg(method, D[i], r), Rat(0))
            /\ \A i \in idx : D[i] = 0 => RZero(D2S_Arg(method, D[i], r))
       ELSE /\ \A i, j \in idx : D[i] <= D[j] => RatLe(D2S_Value(method, D[j], r, a), D2S_Value(method, D[i], r, a))
            /\ (IsNone(rgiven) /\ IsNone(agiven)) =>
                 /\ \A i \in idx : RatLe(Rat(0), D2S_Value(method, D[i], r, a)) /\ RatLe(D2S_Value(method, D[i], r, a), Rat(1))
                 /\ \A i \in idx : D[i] = 0 => RatEq(D2S_Value(method, D[i], r, a), Rat(1))
=============================================================================
