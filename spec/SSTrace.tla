------------------------------- MODULE SSTrace -------------------------------
(* Act T for k-NN subsequence search (C14): call histories on one search object *)
EXTENDS SubseqSearch, DTWCore, Json, IOUtils

T == JsonDeserialize(IOEnv.TRACE_FILE)
N == Len(T)
ChunkSize == 20
NChunks == (N + ChunkSize - 1) \div ChunkSize
VARIABLES lvl, ch, k
vars == <<lvl, ch, k>>
Init == lvl = 0 /\ ch = 0 /\ k = 0
Next == \/ /\ lvl = 0 /\ \E x \in 1..NChunks : ch' = x
           /\ lvl' = 1 /\ k' = 0
        \/ /\ lvl = 1 /\ \E x \in ((ch - 1) * ChunkSize + 1)..Min2(ch * ChunkSize, N) : k' = x
           /\ lvl' = 2 /\ ch' = ch
Spec == Init /\ [][Next]_vars

CandCase(rec, i) == [rec.set EXCEPT !.s1 = rec.q, !.s2 = rec.cands[i], !.md = 0]
\* the distance an exhaustive comparison finds; beyond max_dist it is infinite
Dist(rec, i) == LET c == CandCase(rec, i) d == Opt(c)
                IN IF Exceeds([c EXCEPT !.md = rec.set.md], d) THEN Inf ELSE d
Dvec(rec) == [i \in 1..Len(rec.cands) |-> Dist(rec, i)]

\* answers carry encoded distances (-1 = infinity)
Dec(x) == IF x = -1 THEN Inf ELSE x
CallOK(D, call) ==
    LET ans == [z \in 1..Len(call.ans) |-> <<Dec(call.ans[z][1]), call.ans[z][2]>>]
        fin == {z \in 1..Len(ans) : ~IsInf(ans[z][1])}
    IN IF call.raised THEN TopKDist(D, Inf, 1) = <<>>      \* best_match with nothing to return
       ELSE IF call.k >= 1 THEN AnswerOK(D, Inf, call.k, ans)
       ELSE \* k = None: every candidate is listed, ascending, those beyond max_dist at infinity
            /\ Len(ans) = Len(D)
            /\ fin = 1..Cardinality(fin)
            /\ AnswerOK(D, Inf, -1, [z \in 1..Cardinality(fin) |-> ans[z]])
            /\ {ans[z][2] + 1 : z \in 1..Len(ans)} = 1..Len(D)
            /\ \A z \in 1..Len(ans) : IsInf(ans[z][1]) => IsInf(D[ans[z][2] + 1])

JudgeSS(rec) ==
    LET D == Dvec(rec)
        bad == {r \in 1..Len(rec.calls) : ~CallOK(D, rec.calls[r])}
    IN IF bad = {} THEN TRUE ELSE Fail(rec.id, rec.calls[SetMin(bad)].route)

Verdict == lvl = 2 => JudgeSS(T[k])
=============================================================================
