---------------------------- MODULE MC_Hierarchical ----------------------------
(* Act M: the merge loop as a transition system; every reachable terminal state satisfies the
   postconditions, merges are monotone and bounded, and the loop stops only when stuck. *)
EXTENDS Hierarchical
CONSTANTS MaxN, DVals, MaxDs
VARIABLES n, D, maxd, alive, cl, merges, nodes, link
vars == <<n, D, maxd, alive, cl, merges, nodes, link>>

Init == n = 0 /\ D = <<>> /\ maxd = Inf /\ alive = {} /\ cl = <<>> /\ merges = <<>> /\ nodes = <<>> /\ link = <<>>
Setup == /\ n = 0
         /\ \E m \in 2..MaxN : \E d \in [AlivePairs(0..(m - 1)) -> DVals] : \E md \in MaxDs :
              /\ n' = m /\ D' = d /\ maxd' = md /\ alive' = 0..(m - 1)
              /\ cl' = [x \in 0..(m - 1) |-> {x}]
              /\ nodes' = [x \in 0..(m - 1) |-> x]
         /\ merges' = <<>> /\ link' = <<>>
Merge == /\ n > 0
         /\ \E from \in alive, to \in alive :
              /\ MergeEnabled(D, alive, maxd, from, to, Dist(D, from, to))
              /\ alive' = alive \ {from}
              /\ cl' = MergeClusters(cl, from, to)
              /\ merges' = Append(merges, Dist(D, from, to))
              \* HierarchicalTree bookkeeping: new node id n + (number of rows so far)
              /\ link' = Append(link, <<nodes[from], nodes[to], Dist(D, from, to)>>)
              /\ nodes' = [nodes EXCEPT ![to] = n + Len(link)]
         /\ UNCHANGED <<n, D, maxd>>
Next == Setup \/ Merge
Spec == Init /\ [][Next]_vars

Terminal == n > 0 /\ Stuck(D, alive, maxd)

PartitionAlways == n > 0 => (DOMAIN cl = alive /\ IsPartition(cl, n))
Monotone == \A q \in 1..(Len(merges) - 1) : merges[q] <= merges[q + 1]
Bounded == \A q \in 1..Len(merges) : merges[q] <= maxd /\ ~IsInf(merges[q])
\* with a finite matrix and no max_dist the tree variant ends in a single rooted binary tree
TreeAtEnd == (Terminal /\ IsInf(maxd) /\ \A p \in DOMAIN D : ~IsInf(D[p])) => IsTree(link, n)
\* the loop can always continue unless stuck (no deadlock before termination)
Progress == (n > 0 /\ ~Stuck(D, alive, maxd)) => ENABLED Merge
=============================================================================
