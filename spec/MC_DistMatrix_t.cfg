\* complete block space for n <= 8
SPECIFICATION Spec
CONSTANT MaxN = 8
INVARIANT LengthsAgree
INVARIANT SerialAgrees
INVARIANT OmpAgrees
INVARIANT OmpCovers
INVARIANT CondensedAgrees
CHECK_DEADLOCK FALSE
