----------------------------- MODULE DistMatrix -----------------------------
(***************************************************************************)
(* Distance matrices: which (row, column) pairs a block selects, in which  *)
(* order they are listed in the compact result, and the square form.       *)
(*                                                                         *)
(* A block is a record [rb, re, cb, ce, triu]; "no block" is the block     *)
(* [0, n, 0, n, TRUE].  Declarative half: Pairs.  Algorithmic half: the    *)
(* transcriptions of the four independent index computations of the        *)
(* implementation (Python length, C length, serial loops, OpenMP row plan) *)
(* which MC_DistMatrix proves equal to the declarative half.               *)
(***************************************************************************)
EXTENDS DTWCore

NoBlock(n) == [rb |-> 0, re |-> n, cb |-> 0, ce |-> n, triu |-> TRUE]

ValidBlock(b, n) == 0 <= b.rb /\ b.rb < b.re /\ b.re <= n /\ 0 <= b.cb /\ b.cb < b.ce /\ b.ce <= n

\* columns selected in row r
RowCols(b, r) == IF b.triu THEN {c \in b.cb..(b.ce - 1) : c > r} ELSE b.cb..(b.ce - 1)

\* declarative: the selected pairs, row-major
Selected(b) == {rc \in (b.rb..(b.re - 1)) \X (b.cb..(b.ce - 1)) : rc[2] \in RowCols(b, rc[1])}
Before(p, q) == p[1] < q[1] \/ (p[1] = q[1] /\ p[2] < q[2])
\* position (0-based) of a selected pair in the compact result
PosOf(b, p) == Cardinality({q \in Selected(b) : Before(q, p)})
Length(b) == Cardinality(Selected(b))

\* the same as a sequence (used for conformance records)
RECURSIVE SeqOfSet(_)
SeqOfSet(S) == IF S = {} THEN <<>>
               ELSE LET m == CHOOSE p \in S : \A q \in S : p = q \/ Before(p, q)
                    IN <<m>> \o SeqOfSet(S \ {m})
Pairs(b) == SeqOfSet(Selected(b))

\* position of the pair {a, b} in the condensed (no block) result for n series
CondensedIndex(a, bb, n) ==
    LET lo == Min2(a, bb)
        hi == Max2(a, bb)
    IN PosOf(NoBlock(n), <<lo, hi>>)

(***************************************************************************)
(* Algorithmic half: transcriptions                                        *)
(***************************************************************************)
\* dtw._distance_matrix_length
RECURSIVE PyLenRows(_, _, _)
PyLenRows(b, ri, acc) ==
    IF ri >= b.re THEN acc
    ELSE PyLenRows(b, ri + 1,
            acc + (IF b.cb <= ri THEN (IF b.ce > ri THEN b.ce - ri - 1 ELSE 0)
                   ELSE (IF b.ce > ri THEN b.ce - b.cb ELSE 0)))
PyLength(b) == IF ~b.triu THEN (b.re - b.rb) * (b.ce - b.cb) ELSE PyLenRows(b, b.rb, 0)

\* C dtw_distances_length (block given): loop with early break
RECURSIVE CLenRows(_, _, _)
CLenRows(b, ir, acc) ==
    IF ir >= b.re THEN acc
    ELSE IF ir < b.cb THEN CLenRows(b, ir + 1, acc + (b.ce - b.cb))
    ELSE IF b.ce <= ir THEN acc          \* break
    ELSE CLenRows(b, ir + 1, acc + (b.ce - ir - 1))
CLength(b) == IF ~b.triu THEN (b.re - b.rb) * (b.ce - b.cb) ELSE CLenRows(b, b.rb, 0)

\* C dtw_distances_length without block for n series (triu): n*(n-1)/2 with the even factor halved first
CLengthNoBlock(n) == IF n % 2 = 0 THEN (n \div 2) * (n - 1) ELSE n * ((n - 1) \div 2)

\* serial loops (Python distance_matrix_python / C dtw_distances_*): a running output index
SerialCb(b, r) == IF b.triu /\ r + 1 > b.cb THEN r + 1 ELSE b.cb
RECURSIVE SerialFrom(_, _, _, _)
SerialFrom(b, r, c, acc) ==     \* acc: sequence of pairs written so far (index = position)
    IF r >= b.re THEN acc
    ELSE IF c >= b.ce THEN SerialFrom(b, r + 1, SerialCb(b, r + 1), acc)
    ELSE SerialFrom(b, r, c + 1, Append(acc, <<r, c>>))
SerialOrder(b) == SerialFrom(b, b.rb, SerialCb(b, b.rb), <<>>)

\* OpenMP plan dtw_distances_prepare: per row index r_i the first column cbs and the row offset rls
RECURSIVE PlanFrom(_, _, _, _, _)
PlanFrom(b, r, rs, cbs, rls) ==
    IF r >= b.re THEN [cbs |-> cbs, rls |-> rls]
    ELSE LET cb == IF r + 1 > b.cb THEN r + 1 ELSE b.cb
         IN PlanFrom(b, r + 1, rs + (b.ce - cb), Append(cbs, cb), Append(rls, rs))
Plan(b) == PlanFrom(b, b.rb, 0, <<>>, <<>>)

\* slot written by the parallel loop body for row index ri (0-based) and column c
OmpSlot(b, plan, ri, c) ==
    IF b.triu THEN plan.rls[ri + 1] + (c - plan.cbs[ri + 1])
    ELSE (b.ce - b.cb) * ri + (c - b.cb)
OmpFirstCol(b, plan, ri) == IF b.triu THEN plan.cbs[ri + 1] ELSE b.cb

(***************************************************************************)
(* Square form                                                             *)
(***************************************************************************)
\* expected cell of the square matrix given the compact values vals (function position -> value);
\* -1 encodes infinity
SquareCell(b, n, vals, onlytriu, r, c) ==
    IF <<r, c>> \in Selected(b) THEN vals[PosOf(b, <<r, c>>) + 1]
    ELSE IF ~onlytriu /\ <<c, r>> \in Selected(b) THEN vals[PosOf(b, <<c, r>>) + 1]
    ELSE IF ~onlytriu /\ r = c THEN 0
    ELSE -1
=============================================================================
