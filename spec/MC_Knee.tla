-------------------------------- MODULE MC_Knee --------------------------------
(* Act M for the knee detector: all value sequences over Vals up to length MaxLen, all three alphas *)
EXTENDS Knee
CONSTANTS Vals, MaxLen
VARIABLES st, a4, hist, stopped
vars == <<st, a4, hist, stopped>>
Init == st = KneeInit /\ a4 \in 1..3 /\ hist = <<>> /\ stopped = <<>>
Feed(v) == /\ Len(hist) < MaxLen
           /\ LET r == KneeStep(st, a4, v) IN st' = r[1] /\ stopped' = Append(stopped, r[2])
           /\ hist' = Append(hist, v) /\ UNCHANGED a4
Next == \E v \in Vals : Feed(v)
Spec == Init /\ [][Next]_vars

\* at least min_points + 1 updates are needed: no stop before the fifth value
NeverBeforeFifth == \A q \in 1..Len(stopped) : stopped[q] => q >= 5
\* a value that is not larger than every earlier value never stops the iteration
NoStopOnNewMinimum ==
    \A q \in 1..Len(stopped) : (\A z \in 1..(q - 1) : hist[q] <= hist[z]) => ~stopped[q]
\* the running average stays between the smallest and the largest value seen; the deviation is never negative
AverageInsideRange ==
    Len(hist) >= 1 => /\ st.arr >= SeqMin(hist) * Pow4(st.n) /\ st.arr <= SeqMax(hist) * Pow4(st.n)
                      /\ st.var >= 0
\* the incremental machine and the fold used on recorded traces agree
FoldAgrees == stopped = KneeFlags(a4, hist)
=============================================================================
