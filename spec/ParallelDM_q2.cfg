\* all interleavings, every block, n <= 4, two threads, all loop scalars private
SPECIFICATION Spec
CONSTANTS
  MaxN = 4
  NThreads = 2
  SharedVars = {}
INVARIANT InBounds
INVARIANT NoDoubleWrite
INVARIANT SerialEquivalent
CHECK_DEADLOCK FALSE
