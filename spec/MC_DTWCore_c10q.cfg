\* C10 quick: laws of the definition (identity, non-negativity, symmetry with psi swap, monotonicity in
\* window / psi / max_step / penalty) on every case of the slice
SPECIFICATION Spec
CONSTANTS
  MaxLen = 3
  Vals = {0, 2}
  Inners = {"sq", "cu"}
  Windows = {0, 1, 2}
  Pens = {0, 1}
  MaxSteps = {0, 2}
  MaxDists = {0}
  MLDs = {99}
  PsiMax = 1
  TinyLen = 0
INVARIANT Laws
INVARIANT LayoutBandAgrees
CHECK_DEADLOCK FALSE
