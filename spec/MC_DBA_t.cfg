SPECIFICATION Spec
CONSTANTS
  MaxSeries = 2
  MaxLen = 3
  Vals = {0, 2}
  Windows = {0, 2}
  Pens = {0, 1}
INVARIANT Defined
INVARIANT StepTheorems
CHECK_DEADLOCK FALSE
