SPECIFICATION Spec
CONSTANT MaxLen = 12
INVARIANT ColsAreBand
INVARIANT SlotsInside
INVARIANT PredsOK
INVARIANT LastColumnFixed
INVARIANT ReuseDecision
INVARIANT LayoutAgrees
CHECK_DEADLOCK FALSE
