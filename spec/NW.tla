---------------------------------- MODULE NW ----------------------------------
(***************************************************************************)
(* Needleman-Wunsch global alignment (alignment.needleman_wunsch, dp.dp,   *)
(* alignment.best_alignment).  Symbols are integers >= 0; Gap = -1.        *)
(* Scoring (maximise): sub[a+1][b+1] for aligning a with b, gap (usually   *)
(* negative) for aligning a symbol with a gap.  Scores are scaled integers.*)
(*                                                                         *)
(* Declarative half: the set of ALL global alignments (sequences of        *)
(* columns) and the maximum of their scores.  Algorithmic half: the        *)
(* dynamic programme with its border.                                      *)
(***************************************************************************)
EXTENDS Common

Gap == -1
ColScore(sub, gap, col) == IF col[1] = Gap \/ col[2] = Gap THEN gap ELSE sub[col[1] + 1][col[2] + 1]
AlnScore(sub, gap, aln) == SumSeq([q \in 1..Len(aln) |-> ColScore(sub, gap, aln[q])])

\* all global alignments of the prefixes s1[1..i], s2[1..j]
RECURSIVE Alignments(_, _, _, _)
Alignments(s1, s2, i, j) ==
    IF i = 0 /\ j = 0 THEN {<<>>}
    ELSE (IF i > 0 /\ j > 0 THEN {Append(a, <<s1[i], s2[j]>>) : a \in Alignments(s1, s2, i - 1, j - 1)} ELSE {})
         \cup (IF i > 0 THEN {Append(a, <<s1[i], Gap>>) : a \in Alignments(s1, s2, i - 1, j)} ELSE {})
         \cup (IF j > 0 THEN {Append(a, <<Gap, s2[j]>>) : a \in Alignments(s1, s2, i, j - 1)} ELSE {})
MaxScoreDecl(sub, gap, s1, s2) ==
    SetMax({AlnScore(sub, gap, a) : a \in Alignments(s1, s2, Len(s1), Len(s2))})

\* the dynamic programme: M[i+1][j+1], border = i * gap and j * gap
RECURSIVE DPRow(_, _, _, _, _, _, _)
DPRow(sub, gap, s1, s2, prev, i, acc) ==
    LET j == Len(acc)          \* next column index (acc holds columns 0..j-1)
    IN IF j > Len(s2) THEN acc
       ELSE DPRow(sub, gap, s1, s2, prev, i,
                  Append(acc, Max3(prev[j] + sub[s1[i] + 1][s2[j] + 1], prev[j + 1] + gap, acc[j] + gap)))
RECURSIVE DPRows(_, _, _, _, _, _)
DPRows(sub, gap, s1, s2, rows, i) ==
    IF i > Len(s1) THEN rows
    ELSE DPRows(sub, gap, s1, s2, Append(rows, DPRow(sub, gap, s1, s2, rows[i], i, <<i * gap>>)), i + 1)
DPMatrix(sub, gap, s1, s2) == DPRows(sub, gap, s1, s2, <<[j \in 1..(Len(s2) + 1) |-> (j - 1) * gap]>>, 1)
MaxScore(sub, gap, s1, s2) == DPMatrix(sub, gap, s1, s2)[Len(s1) + 1][Len(s2) + 1]

\* a reported alignment: two gapped sequences
Strip(a) == SelectSeq(a, LAMBDA x : x # Gap)
AlignmentClause(sub, gap, s1, s2, a1, a2, value) ==
    IF Len(a1) # Len(a2) THEN "lengths-differ"
    ELSE IF Strip(a1) # s1 \/ Strip(a2) # s2 THEN "does-not-reduce-to-the-inputs"
    ELSE IF \E q \in 1..Len(a1) : a1[q] = Gap /\ a2[q] = Gap THEN "gap-aligned-with-gap"
    ELSE IF AlnScore(sub, gap, [q \in 1..Len(a1) |-> <<a1[q], a2[q]>>]) # value THEN "alignment-score-differs-from-value"
    ELSE "ok"
=============================================================================
