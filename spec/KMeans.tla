-------------------------------- MODULE KMeans --------------------------------
(***************************************************************************)
(* DBA k-means (clustering.kmeans.KMeans.fit) as a state machine over      *)
(* abstract distance ranks.  After every mean update the distances between *)
(* series and means may change arbitrarily (the means are new series), so  *)
(* each assignment step draws a fresh rank table.                          *)
(*                                                                         *)
(* Steps of one iteration, as in the implementation:                       *)
(*   Assign   every series goes to a mean with minimal distance            *)
(*   (stop)   if the (outlier-masked) assignment did not change            *)
(*   Repair   an empty cluster steals the most distant series              *)
(*   Update   new means (DBA over the masked members)                      *)
(*   (stop)   if the means did not move                                    *)
(* and a final assignment after the loop, which is what is returned.       *)
(***************************************************************************)
EXTENDS Common

CONSTANTS K, NSeries, MaxIt, Ranks
Series == 1..NSeries
Clusters == 0..(K - 1)

VARIABLES pc,          \* "assign" | "repair" | "update" | "final" | "done"
          it,          \* performed_it
          loops,       \* loop iterations started
          rank,        \* current table series -> cluster -> rank of the distance
          assign,      \* series -> cluster of the last assignment
          mask,        \* cluster -> set of series used for its mean (after outlier drop / repair)
          result       \* returned dictionary cluster -> set of series
vars == <<pc, it, loops, rank, assign, mask, result>>

Tables == [Series -> [Clusters -> Ranks]]
Nearest(t, s) == {c \in Clusters : \A d \in Clusters : t[s][c] <= t[s][d]}

Init == /\ pc = "assign" /\ it = 1 /\ loops = 0 /\ rank \in Tables
        /\ assign = [s \in Series |-> 0] /\ mask = [c \in Clusters |-> {}] /\ result = <<>>

\* start of a loop iteration (if the budget allows), else go to the final assignment
Assign ==
    /\ pc = "assign"
    /\ IF loops < MaxIt
       THEN /\ loops' = loops + 1 /\ it' = it + 1
            /\ \E a \in [Series -> Clusters] :
                 /\ \A s \in Series : a[s] \in Nearest(rank, s)
                 /\ assign' = a
                 \* outlier dropping keeps any subset of each cluster's members
                 /\ \E m \in [Clusters -> SUBSET Series] :
                      /\ \A c \in Clusters : m[c] \subseteq {s \in Series : a[s] = c}
                      /\ IF m = mask THEN pc' = "final" /\ mask' = mask      \* no change: stop
                         ELSE pc' = "repair" /\ mask' = m
            /\ UNCHANGED <<rank, result>>
       ELSE /\ pc' = "final" /\ UNCHANGED <<it, loops, rank, assign, mask, result>>

\* every empty cluster takes one series away from the others
Repair ==
    /\ pc = "repair"
    /\ IF \E c \in Clusters : mask[c] = {}
       THEN \E c \in {c \in Clusters : mask[c] = {}}, s \in Series :
               mask' = [d \in Clusters |-> IF d = c THEN {s} ELSE mask[d] \ {s}]
            /\ pc' = "repair"
       ELSE pc' = "update" /\ mask' = mask
    /\ UNCHANGED <<it, loops, rank, assign, result>>

\* new means: the distance table changes arbitrarily; the loop may also stop (means did not move)
Update ==
    /\ pc = "update"
    /\ rank' \in Tables
    /\ pc' \in {"assign", "final"}
    /\ UNCHANGED <<it, loops, assign, mask, result>>

Final ==
    /\ pc = "final"
    /\ \E a \in [Series -> Clusters] :
         /\ \A s \in Series : a[s] \in Nearest(rank, s)
         /\ assign' = a
         /\ result' = [c \in Clusters |-> {s \in Series : a[s] = c}]
    /\ pc' = "done"
    /\ UNCHANGED <<it, loops, rank, mask>>

Next == Assign \/ Repair \/ Update \/ Final
Spec == Init /\ [][Next]_vars

----------------------------------------------------------------------------
\* postconditions of a returned result (also used on recorded runs by KMTrace)
ResultOK(res, k, n, table, performed, maxit) ==
    /\ DOMAIN res = 0..(k - 1)
    /\ UNION {res[c] : c \in DOMAIN res} = 1..n
    /\ \A c, d \in DOMAIN res : c # d => res[c] \cap res[d] = {}
    /\ \A c \in DOMAIN res : \A s \in res[c] : \A d \in 0..(k - 1) : table[s][c] <= table[s][d]
    /\ performed <= maxit + 1

Post == pc = "done" => ResultOK(result, K, NSeries, rank, it, MaxIt)
RepairTerminates == pc = "update" => \A c \in Clusters : mask[c] # {}
=============================================================================
