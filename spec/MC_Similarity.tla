----------------------------- MODULE MC_Similarity -----------------------------
(* Act M: the promised properties hold for the resolved parameters on every distance array of the
   slice, every method, with r / a given or derived. *)
EXTENDS Similarity
CONSTANTS MaxLen, DVals, RVals
VARIABLES D, method, r, a, picked
vars == <<D, method, r, a, picked>>
Init == D = <<>> /\ method = "" /\ r = None /\ a = None /\ picked = FALSE
Next == /\ ~picked /\ picked' = TRUE
        /\ \E n \in 1..MaxLen : \E d \in [1..n -> DVals] : D' = d
        /\ \E m \in {"exponential", "gaussian", "reciprocal", "reverse"} : method' = m
        /\ \E rr \in {None} \cup {<<x, y>> : x \in RVals, y \in {1, 2}} : r' = rr
        /\ \E aa \in {None} \cup {<<x, 1>> : x \in RVals} : a' = aa
Spec == Init /\ [][Next]_vars

\* with a given r the reverse transform is only promised to be monotone (range needs r >= max D)
Props == picked => D2S_Props(method, D, r, IF method = "reciprocal" THEN a ELSE None)

\* squashing: non-decreasing argument, logistic argument finite for every derived scale
SquashProps ==
    picked =>
      \A m \in {"logistic", "gaussian", "exponential"} :
        LET n == Len(D)
            x0r == Sq_X0(m, D, None, SumSeq(D), n)
            rr == Sq_R(m, x0r, r)
        IN /\ RPos(rr)
           /\ \A i, j \in 1..n : D[i] <= D[j] =>
                 IF m = "logistic" THEN RatLe(Sq_Arg(m, D[i], x0r, rr), Sq_Arg(m, D[j], x0r, rr))
                 ELSE RatLe(Sq_Arg(m, D[j], x0r, rr), Sq_Arg(m, D[i], x0r, rr))     \* 1 - b^arg: arg decreasing
           /\ m # "logistic" => \A i \in 1..n : RatLe(Sq_Arg(m, D[i], x0r, rr), Rat(0))
=============================================================================
