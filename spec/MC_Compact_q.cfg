SPECIFICATION Spec
CONSTANT MaxLen = 8
INVARIANT ColsAreBand
INVARIANT SlotsInside
INVARIANT PredsOK
INVARIANT LastColumnFixed
INVARIANT ReuseDecision
CHECK_DEADLOCK FALSE
