SPECIFICATION Spec
CONSTANTS
  Vals = {0, 1, 2, 5}
  MaxLen = 6
INVARIANT NeverBeforeFifth
INVARIANT NoStopOnNewMinimum
INVARIANT AverageInsideRange
INVARIANT FoldAgrees
CHECK_DEADLOCK FALSE
