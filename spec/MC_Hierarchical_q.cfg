SPECIFICATION Spec
CONSTANTS
  MaxN = 4
  DVals = {1, 2, 3, 100000000}
  MaxDs = {1, 2, 100000000}
INVARIANT PartitionAlways
INVARIANT Monotone
INVARIANT Bounded
INVARIANT TreeAtEnd
INVARIANT Progress
CHECK_DEADLOCK FALSE
