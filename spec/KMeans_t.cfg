SPECIFICATION Spec
CONSTANTS
  K = 3
  NSeries = 4
  MaxIt = 1
  Ranks = {0, 1}
INVARIANT Post
INVARIANT RepairTerminates
CHECK_DEADLOCK FALSE
