---------------------------- MODULE MC_SubseqSearch ----------------------------
(***************************************************************************)
(* The search loop and the cache as a state machine over ABSTRACT          *)
(* distances.  CacheUsesK = TRUE is the design in which the match list of  *)
(* a cached answer is cut at the requested k; FALSE is the original design *)
(* (the list length comes from the previous, larger k) which TLC refutes.  *)
(***************************************************************************)
EXTENDS SubseqSearch
CONSTANTS MaxN, DVals, Ks, Ms, MaxCalls, CacheUsesK

VARIABLES D, LB, M, uselb,       \* the problem (chosen in the first step)
          pc,                    \* "new" | "idle" | "scan"
          k, i, heap, thr,       \* the running call
          cachek, cache,         \* result of the last scan
          ans, anskey,           \* last answer and the k it was asked for
          ncalls
vars == <<D, LB, M, uselb, pc, k, i, heap, thr, cachek, cache, ans, anskey, ncalls>>

Init == /\ D = <<>> /\ LB = <<>> /\ M = Inf /\ uselb = FALSE /\ pc = "new" /\ k = 0 /\ i = 0
        /\ heap = {} /\ thr = Inf /\ cachek = -2 /\ cache = <<>> /\ ans = <<>> /\ anskey = -2 /\ ncalls = 0

New == /\ pc = "new"
       /\ \E n \in 1..MaxN : \E d \in [1..n -> DVals \cup {Inf}] :
            \E lb \in [1..n -> DVals \cup {0}] :
              /\ \A j \in 1..n : lb[j] <= d[j]            \* a valid lower bound
              /\ D' = d /\ LB' = lb
       /\ \E m \in Ms : M' = m
       /\ \E u \in BOOLEAN : uselb' = u
       /\ pc' = "idle"
       /\ UNCHANGED <<k, i, heap, thr, cachek, cache, ans, anskey, ncalls>>

\* kbest_matches(kk): reuse the cache when kk <= cached k, else scan
Call(kk) ==
    /\ pc = "idle" /\ ncalls < MaxCalls
    /\ ncalls' = ncalls + 1 /\ anskey' = kk
    /\ IF cachek >= 1 /\ kk <= cachek
       THEN /\ ans' = IF CacheUsesK THEN Take(cache, kk) ELSE cache
            /\ UNCHANGED <<pc, k, i, heap, thr, cachek, cache>>
       ELSE /\ pc' = "scan" /\ k' = kk /\ i' = 1 /\ heap' = {} /\ thr' = M
            /\ UNCHANGED <<cachek, cache, ans>>
    /\ UNCHANGED <<D, LB, M, uselb>>

MaxOf(h) == CHOOSE x \in h : \A y \in h : x[1] >= y[1]
Consider ==
    /\ pc = "scan" /\ i <= Len(D)
    /\ IF uselb /\ LB[i] > thr
       THEN UNCHANGED <<heap, thr>>                                   \* skipped by the lower bound
       ELSE LET d == IF IsInf(D[i]) \/ D[i] > thr THEN Inf ELSE D[i]  \* distance(..., max_dist=thr)
            IN IF IsInf(d) THEN UNCHANGED <<heap, thr>>
               ELSE IF Cardinality(heap) < k
                    THEN /\ heap' = heap \cup {<<d, i - 1>>}
                         /\ thr' = IF Cardinality(heap) + 1 = k THEN Min2(thr, MaxOf(heap \cup {<<d, i - 1>>})[1]) ELSE thr
                    ELSE \E out \in {x \in heap \cup {<<d, i - 1>>} : \A y \in heap \cup {<<d, i - 1>>} : x[1] >= y[1]} :
                            /\ heap' = (heap \cup {<<d, i - 1>>}) \ {out}
                            /\ thr' = Min2(thr, MaxOf((heap \cup {<<d, i - 1>>}) \ {out})[1])
    /\ i' = i + 1
    /\ UNCHANGED <<D, LB, M, uselb, pc, k, cachek, cache, ans, anskey, ncalls>>

RECURSIVE SortedHeap(_)
SortedHeap(h) == IF h = {} THEN <<>>
                 ELSE LET m == CHOOSE x \in h : \A y \in h : x[1] < y[1] \/ (x[1] = y[1] /\ x[2] <= y[2])
                      IN <<m>> \o SortedHeap(h \ {m})
Finish ==
    /\ pc = "scan" /\ i > Len(D)
    /\ cache' = SortedHeap(heap) /\ cachek' = k /\ ans' = SortedHeap(heap)
    /\ pc' = "idle"
    /\ UNCHANGED <<D, LB, M, uselb, k, i, heap, thr, anskey, ncalls>>

Next == New \/ (\E kk \in Ks : Call(kk)) \/ Consider \/ Finish
Spec == Init /\ [][Next]_vars

----------------------------------------------------------------------------
\* while scanning: the heap holds the min(k, .) smallest eligible distances seen so far
HeapIsTopKOfSeen ==
    pc = "scan" =>
      LET seen == [z \in 1..(i - 1) |-> D[z]]
      IN [z \in 1..Cardinality(heap) |-> SortedHeap(heap)[z][1]] = TopKDist(seen, M, k)
\* the threshold never cuts a candidate that belongs to the answer
ThresholdSound ==
    pc = "scan" => \A z \in Eligible(D, M) :
                      (z >= i /\ Cardinality({y \in Eligible(D, M) : D[y] < D[z]}) < k) => D[z] <= thr
\* every answer equals what a fresh exhaustive search returns
AnswersExact == (pc = "idle" /\ anskey >= 1) => AnswerOK(D, M, anskey, ans)
=============================================================================
