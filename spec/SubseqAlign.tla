----------------------------- MODULE SubseqAlign -----------------------------
(***************************************************************************)
(* Subsequence alignment: where does a query occur in a longer series.     *)
(*                                                                         *)
(* Declarative half: the matching function at end position e is the        *)
(* minimum over all start positions b <= e of the penalised DTW cost       *)
(* between the query and series[b..e] (no relaxation), divided by the      *)
(* query length.  Algorithmic half: one accumulated-cost matrix with the   *)
(* begin and end of the series fully relaxed (psi = (0, 0, n, n)), whose   *)
(* last row is read off.  MC_SubseqAlign proves the two equal.             *)
(***************************************************************************)
EXTENDS DTWCore

SACase(set, q, s) == [set EXCEPT !.s1 = q, !.s2 = s, !.psi = <<0, 0, Len(s), Len(s)>>]
SubSeries(s, b, e) == [z \in 1..(e - b + 1) |-> s[b + z]]       \* 0-based b..e inclusive
PlainCase(set, q, s, b, e) == [set EXCEPT !.s1 = q, !.s2 = SubSeries(s, b, e), !.psi = <<0, 0, 0, 0>>]

\* internal-domain cost of the best match ending at e (algorithmic: last row of the relaxed matrix)
MatchCostAt(M, q, e) == OptTo(M, Len(q) - 1, e)
\* declarative
MatchCostDecl(set, q, s, e) == SetMin({Opt(PlainCase(set, q, s, b, e)) : b \in 0..e})

\* a reported match: path through the relaxed matrix from the first query row to (last row, e)
MatchPathOK(c, p, e, cost) ==
    /\ PathShape(c, p)
    /\ p[1][1] = 0
    /\ p[Len(p)] = <<L1(c) - 1, e>>
    /\ PathCost(c, p) = cost

\* postconditions of the k-best iterator: ys = sequence of [e, b] in the order yielded, vals their costs
Overlap(a, b) == \* number of shared samples of two segments [b, e]
    LET lo == Max2(a[1], b[1]) hi == Min2(a[2], b[2]) IN IF hi >= lo THEN hi - lo + 1 ELSE 0
IterOK(segs, vals, k, overlap, minlength, maxlength) ==
    /\ (k >= 0 => Len(segs) <= k)
    /\ \A x \in 1..Len(segs), y \in 1..Len(segs) : x # y => segs[x][2] # segs[y][2]     \* distinct end points
    /\ \A x \in 1..(Len(vals) - 1) : vals[x] <= vals[x + 1]                             \* non-decreasing
    /\ \A x \in 1..Len(segs) :
         LET len == segs[x][2] - segs[x][1] + 1
         IN (minlength >= 0 => len >= minlength) /\ (maxlength >= 0 => len <= maxlength)
    /\ overlap = 0 => \A x \in 1..Len(segs), y \in 1..Len(segs) : x # y => Overlap(segs[x], segs[y]) <= 1
=============================================================================
