------------------------------- MODULE Common -------------------------------
(***************************************************************************)
(* Exact arithmetic domain shared by all specifications.                   *)
(*                                                                         *)
(* Every quantity is an integer in a scaled unit (series values v stand    *)
(* for v/S, squared costs for x/S^2).  Infinity is the distinguished       *)
(* constant Inf with saturating addition.  TLC integers are 32 bit; all    *)
(* configurations keep finite costs far below Inf.                         *)
(***************************************************************************)
EXTENDS Integers, Sequences, FiniteSets, TLC

Inf == 100000000

IsInf(x) == x >= Inf
Add(a, b) == IF a >= Inf \/ b >= Inf THEN Inf ELSE a + b
Min2(a, b) == IF a <= b THEN a ELSE b
Max2(a, b) == IF a >= b THEN a ELSE b
Min3(a, b, c) == Min2(a, Min2(b, c))
Max3(a, b, c) == Max2(a, Max2(b, c))
Abs(x) == IF x < 0 THEN -x ELSE x
Sq(x) == x * x

SetMin(S) == CHOOSE x \in S : \A y \in S : x <= y
SetMax(S) == CHOOSE x \in S : \A y \in S : x >= y
SetMinOr(S, d) == IF S = {} THEN d ELSE SetMin(S)

RECURSIVE SumSeq(_)
SumSeq(s) == IF s = <<>> THEN 0 ELSE Head(s) + SumSeq(Tail(s))

RECURSIVE SumSet(_)
SumSet(S) == IF S = {} THEN 0 ELSE LET x == CHOOSE y \in S : TRUE IN x + SumSet(S \ {x})

\* integer square root (floor); costs in the model are small
RECURSIVE ISqrtFrom(_, _)
ISqrtFrom(n, r) == IF (r + 1) * (r + 1) > n THEN r ELSE ISqrtFrom(n, r + 1)
ISqrt(n) == ISqrtFrom(n, 0)
IsSquare(n) == LET r == ISqrt(n) IN r * r = n

SeqMin(s) == SetMin({s[i] : i \in 1..Len(s)})
SeqMax(s) == SetMax({s[i] : i \in 1..Len(s)})

Range(f) == {f[x] : x \in DOMAIN f}

\* rationals as <<num, den>> with den > 0, compared by cross multiplication
RatEq(a, b) == a[1] * b[2] = b[1] * a[2]
RatLe(a, b) == a[1] * b[2] <= b[1] * a[2]
RatLt(a, b) == a[1] * b[2] < b[1] * a[2]

\* verdict plumbing for trace specifications: a failing clause prints one line and the
\* run continues, so that one TLC run yields one verdict per record
Fail(id, clause) == PrintT(<<"VERDICT-FAIL", id, clause>>)
Judge(id, clauses) ==
    \* clauses: sequence of <<name, bool>>; prints the first failing clause
    LET bad == {i \in 1..Len(clauses) : ~clauses[i][2]}
    IN IF bad = {} THEN TRUE ELSE Fail(id, clauses[SetMin(bad)][1])
=============================================================================
