SPECIFICATION Spec
CONSTANTS
  MaxN = 3
  DVals = {1, 2, 3}
  Ks = {1, 2, 5}
  Ms = {2, 100000000}
  MaxCalls = 3
  CacheUsesK = FALSE
INVARIANT HeapIsTopKOfSeen
INVARIANT ThresholdSound
INVARIANT AnswersExact
CHECK_DEADLOCK FALSE
