------------------------------- MODULE KneeTrace -------------------------------
(* Act T for extension X04: recorded decisions of util.DetectKnee.dostop, and the range-factor iterator of
   SubsequenceAlignment compared with the k-best iterator *)
EXTENDS Knee, Json, IOUtils
T == JsonDeserialize(IOEnv.TRACE_FILE)
N == Len(T)
ChunkSize == 50
NChunks == (N + ChunkSize - 1) \div ChunkSize
VARIABLES lvl, ch, k
vars == <<lvl, ch, k>>
Init == lvl = 0 /\ ch = 0 /\ k = 0
Next == \/ /\ lvl = 0 /\ \E q \in 1..NChunks : ch' = q
           /\ lvl' = 1 /\ k' = 0
        \/ /\ lvl = 1 /\ \E q \in ((ch - 1) * ChunkSize + 1)..Min2(ch * ChunkSize, N) : k' = q
           /\ lvl' = 2 /\ ch' = ch
Spec == Init /\ [][Next]_vars

JudgeKnee(rec) ==
    IF rec.kind = "knee"
    THEN IF rec.stops = KneeFlags(rec.a4, rec.vals) THEN TRUE ELSE Fail(rec.id, "dostop-decisions")
    ELSE \* kind "range": best_matches(max_rangefactor = f) must be the longest prefix of the k-best sequence whose
         \* values stay within f times the first value; values are integers in the record's unit, f = fnum / fden
         LET all == rec.all
             want == IF all = <<>> THEN <<>>
                     ELSE LET ok == {q \in 1..Len(all) : \A z \in 1..q : all[z][3] * rec.fden <= all[1][3] * rec.fnum}
                          IN IF ok = {} THEN <<>> ELSE SubSeq(all, 1, SetMax(ok))
         IN IF rec.got = want THEN TRUE ELSE Fail(rec.id, rec.route)

Verdict == lvl = 2 => JudgeKnee(T[k])
=============================================================================
