\* C01 thorough (1): LONGER series (lengths <= 4), all psi 4-tuples with entries <= 2, all windows, penalty;
\* the option-rich slice (max_step, max_length_diff, three inner distances) is c01t2 with lengths <= 3.
\* 0.54 M cases; each one enumerates the admissible paths of every cell
SPECIFICATION Spec
CONSTANTS
  MaxLen = 4
  Vals = {0, 2}
  Inners = {"sq"}
  Windows = {0, 1, 2, 3}
  Pens = {0, 1}
  MaxSteps = {0}
  MaxDists = {0}
  MLDs = {99}
  PsiMax = 2
  TinyLen = 5
INVARIANT CellwiseOptimal
INVARIANT DistanceOptimal
INVARIANT EnumerationSound
CHECK_DEADLOCK FALSE
