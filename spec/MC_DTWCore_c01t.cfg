\* C01 thorough: longer series, all psi 4-tuples with entries <= 3, euclidean inner distance, max_length_diff
SPECIFICATION Spec
CONSTANTS
  MaxLen = 4
  Vals = {0, 2}
  Inners = {"sq", "eu"}
  Windows = {0, 1, 2, 3}
  Pens = {0, 1}
  MaxSteps = {0, 1}
  MaxDists = {0}
  MLDs = {99, 1}
  PsiMax = 3
  TinyLen = 5
INVARIANT CellwiseOptimal
INVARIANT DistanceOptimal
INVARIANT EnumerationSound
CHECK_DEADLOCK FALSE
