--------------------------------- MODULE Knee ---------------------------------
(***************************************************************************)
(* util.DetectKnee (extension X04): the EWMA-based stop rule used by        *)
(* SubsequenceAlignment.best_matches_knee and SymbolAlignment.  A state     *)
(* machine fed one value per call:                                          *)
(*    first call:  arr := value, arrvar := 0, never stops;                  *)
(*    later calls: stop iff cnt >= 3 and value > arr + 4 * arrvar, then     *)
(*        arrvar := a*max(0, value - arr) + (1-a)*arrvar                    *)
(*        arr    := a*value + (1-a)*arr,   cnt := cnt + 1.                  *)
(* alpha = a4/4 with a4 in 1..3; after n updates arr and arrvar are         *)
(* integers over 4^n, which is how the state is kept (exact).               *)
(***************************************************************************)
EXTENDS Common

RECURSIVE Pow4(_)
Pow4(n) == IF n = 0 THEN 1 ELSE 4 * Pow4(n - 1)

KneeInit == [n |-> 0, arr |-> 0, var |-> 0, cnt |-> 0, seen |-> FALSE]

\* <<new state, stop flag>> of dostop(v)
KneeStep(st, a4, v) ==
    IF ~st.seen THEN <<[st EXCEPT !.arr = v, !.var = 0, !.seen = TRUE], FALSE>>
    ELSE LET sc == Pow4(st.n)
             stop == st.cnt >= 3 /\ v * sc > st.arr + 4 * st.var
             dv == Max2(0, v * sc - st.arr)
         IN <<[n |-> st.n + 1, arr |-> a4 * v * sc + (4 - a4) * st.arr, var |-> a4 * dv + (4 - a4) * st.var,
               cnt |-> st.cnt + 1, seen |-> TRUE], stop>>

\* the sequence of stop flags for a sequence of values
RECURSIVE Flags(_, _, _)
Flags(st, a4, vals) ==
    IF vals = <<>> THEN <<>>
    ELSE LET r == KneeStep(st, a4, Head(vals)) IN <<r[2]>> \o Flags(r[1], a4, Tail(vals))
KneeFlags(a4, vals) == Flags(KneeInit, a4, vals)
=============================================================================
