------------------------------ MODULE DBATrace ------------------------------
(* Act T for DBA (C12): recorded averaging steps of both engines judged against DBA.tla *)
EXTENDS DBA, Json, IOUtils

T == JsonDeserialize(IOEnv.TRACE_FILE)
N == Len(T)
ChunkSize == 20
NChunks == (N + ChunkSize - 1) \div ChunkSize
VARIABLES lvl, ch, k
vars == <<lvl, ch, k>>
Init == lvl = 0 /\ ch = 0 /\ k = 0
Next == \/ /\ lvl = 0 /\ \E x \in 1..NChunks : ch' = x
           /\ lvl' = 1 /\ k' = 0
        \/ /\ lvl = 1 /\ \E x \in ((ch - 1) * ChunkSize + 1)..Min2(ch * ChunkSize, N) : k' = x
           /\ lvl' = 2 /\ ch' = ch
Spec == Init /\ [][Next]_vars

\* one recorded step: new (integers at scale dn) from avg
StepClause(set, ser, avg, mask, new, dn) ==
    LET sel == Selected(mask)
    IN IF dn <= 0 THEN "not-a-rational-average"
       ELSE IF Len(new) # Len(avg) THEN "length"
       ELSE IF ~AllowedSearch(set, ser, avg, mask, new, dn) THEN "not-an-average-over-optimal-paths"
       ELSE IF ~InRange(ser, sel, new, dn) THEN "range"
       ELSE IF set.inner = "sq" /\ ~NotWorse(set, ser, avg, sel, new, dn) THEN "objective-increased"
       ELSE "ok"

JudgeDBA(rec) ==
    LET cl == [r \in 1..Len(rec.news) |-> StepClause(rec.set, rec.ser, rec.avg, rec.mask, rec.news[r], rec.dns[r])]
        bad == {r \in 1..Len(rec.news) : cl[r] # "ok"}
        \* the loop performs at most max_it steps
        badloop == {r \in 1..Len(rec.loops) : rec.loops[r].steps > rec.loops[r].maxit}
        \* sampled (non-optimal) paths: values (floor / ceiling at scale 1000) inside the range of the selected series
        sel == Selected(rec.mask)
        badprob == {r \in 1..Len(rec.probs) :
                      LET pr == rec.probs[r] IN
                      ~ /\ Len(pr.lo) = Len(rec.avg)
                        /\ \A i \in 1..Len(pr.lo) : \A d \in 1..Len(pr.lo[i]) :
                              LET vals == UNION {{rec.ser[z][q][d] : q \in 1..Len(rec.ser[z])} : z \in sel}
                              IN pr.hi[i][d] >= 1000 * SetMin(vals) /\ pr.lo[i][d] <= 1000 * SetMax(vals)}
    IN IF bad # {} THEN Fail(rec.id, rec.routes[SetMin(bad)] \o ":" \o cl[SetMin(bad)])
       ELSE IF badprob # {} THEN Fail(rec.id, rec.probs[SetMin(badprob)].route \o ":outside-the-range-of-the-selected-series")
       ELSE IF badloop # {} THEN Fail(rec.id, rec.loops[SetMin(badloop)].route \o ":too-many-steps")
       ELSE TRUE

Verdict == lvl = 2 => JudgeDBA(T[k])
=============================================================================
