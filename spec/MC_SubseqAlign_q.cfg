SPECIFICATION Spec
CONSTANTS
  MaxQ = 2
  MaxS = 4
  Vals = {0, 1, 3}
  Pens = {0, 1, 2}
INVARIANT MatchingFunctionIsMinOverStarts
CHECK_DEADLOCK FALSE
