--------------------------------- MODULE Purity ---------------------------------
(***************************************************************************)
(* Calls are pure.  The state is a store of caller-owned objects (series,  *)
(* collections, settings dictionaries); every public routine is an action  *)
(* that leaves the store unchanged and whose result is a function of the   *)
(* numeric CONTENT of its arguments only - not of the container kind the   *)
(* content is presented in, nor of the calls made before.                  *)
(*                                                                         *)
(* A history is a sequence of call records                                 *)
(*   [routine, args (object ids), kinds, before, after, token, result]     *)
(* where before/after are the contents of every store object around the    *)
(* call, token identifies (routine, contents of the arguments, settings)   *)
(* and result is a canonical encoding of what was returned.                *)
(***************************************************************************)
EXTENDS Common

\* the store is untouched by the call
StoreUnchanged(call) == call.after = call.before
\* the store only changes between calls when the history says so (it never does: objects are immutable inputs)
Frame(h, i) == i = 1 \/ h[i].before = h[i - 1].after

\* same routine on the same contents with the same settings gives the same result, whatever the
\* container kinds and whatever happened in between
Functional(h) == \A i, j \in 1..Len(h) : h[i].token = h[j].token => h[i].result = h[j].result

HistoryPure(h) ==
    /\ \A i \in 1..Len(h) : StoreUnchanged(h[i]) /\ Frame(h, i)
    /\ Functional(h)
=============================================================================
