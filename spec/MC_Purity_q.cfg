SPECIFICATION Spec
CONSTANTS
  Objs = {1, 2}
  Contents = {0, 1, 2}
  MaxCalls = 3
  CopiesInputs = TRUE
INVARIANT Pure
PROPERTY StoreNeverChanges
CHECK_DEADLOCK FALSE
