\* C09 quick: LB_Keogh <= Opt <= ED on the model (signed values, unequal lengths, all windows, penalties)
SPECIFICATION Spec
CONSTANTS
  MaxLen = 3
  Vals = {0, 1, 3}
  Inners = {"sq", "eu"}
  Windows = {0, 1, 2, 3}
  Pens = {0, 1, 2}
  MaxSteps = {0}
  MaxDists = {0}
  MLDs = {99}
  PsiMax = 0
  TinyLen = 0
INVARIANT Sandwich
CHECK_DEADLOCK FALSE
