SPECIFICATION Spec
CONSTANTS
  K = 3
  NSeries = 3
  MaxIt = 2
  Ranks = {0, 1}
INVARIANT Post
INVARIANT RepairTerminates
CHECK_DEADLOCK FALSE
