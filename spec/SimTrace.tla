------------------------------- MODULE SimTrace -------------------------------
(***************************************************************************)
(* Act T for similarity transforms (C19).  A call record carries the       *)
(* distances (naturals), the given parameters, and what came back:         *)
(*  mode "exact": per element the rational value (reciprocal, reverse) or  *)
(*     the rational ARGUMENT recovered from the value (ln S, log_b(1-S),   *)
(*     log_b(S/(1-S))), to be equal to the specification's argument;       *)
(*  mode "order": dense ranks of the values plus range flags (parameters   *)
(*     derived through quantiles are irrational).                          *)
(***************************************************************************)
EXTENDS Similarity, Json, IOUtils
T == JsonDeserialize(IOEnv.TRACE_FILE)
N == Len(T)
ChunkSize == 20
NChunks == (N + ChunkSize - 1) \div ChunkSize
VARIABLES lvl, ch, k
vars == <<lvl, ch, k>>
Init == lvl = 0 /\ ch = 0 /\ k = 0
Next == \/ /\ lvl = 0 /\ \E x \in 1..NChunks : ch' = x
           /\ lvl' = 1 /\ k' = 0
        \/ /\ lvl = 1 /\ \E x \in ((ch - 1) * ChunkSize + 1)..Min2(ch * ChunkSize, N) : k' = x
           /\ lvl' = 2 /\ ch' = ch
Spec == Init /\ [][Next]_vars

P(x) == <<x[1], x[2]>>      \* JSON pair -> rational

Expected(c, i) ==
    IF c.kind = "d2s"
    THEN LET r == D2S_R(c.method, c.D, P(c.r)) a == D2S_A(P(c.a))
         IN IF c.method \in {"reciprocal", "reverse"} THEN D2S_Value(c.method, c.D[i], r, a)
            ELSE D2S_Arg(c.method, c.D[i], r)
    ELSE LET x0r == Sq_X0(c.method, c.D, P(c.x0), SumSeq(c.D), Len(c.D))
             r == Sq_R(c.method, x0r, P(c.r))
         IN Sq_Arg(c.method, c.D[i], x0r, r)

CallClause(c) ==
    LET n == Len(c.D)
        decreasing == c.kind = "d2s"
    IN IF c.raised THEN "raised"
       ELSE IF ~c.finite THEN "not-finite"
       \* [0, 1] is promised for squashing always, for similarities under the default scale
       ELSE IF (c.kind = "squash" \/ c.defaults) /\ ~c.in01 THEN "outside-0-1"
       ELSE IF \E i, j \in 1..n :
                  \/ c.D[i] = c.D[j] /\ c.ranks[i] # c.ranks[j]
                  \/ c.D[i] < c.D[j] /\ (IF decreasing THEN c.ranks[i] < c.ranks[j] ELSE c.ranks[i] > c.ranks[j])
            THEN "not-monotone"
       ELSE IF c.kind = "d2s" /\ c.defaults /\ ~c.zeromax THEN "zero-distance-not-maximal"
       ELSE IF c.mode = "exact" /\ \E i \in 1..n : c.vals[i][2] > 0 /\ ~RatEq(P(c.vals[i]), Expected(c, i))
            THEN "value-differs-from-documented-formula"
       ELSE IF c.mode = "exact" /\ c.kind = "d2s" /\ c.rrep[2] > 0
                /\ ~RatEq(P(c.rrep), D2S_R(c.method, c.D, P(c.r))) THEN "reported-parameter"
       ELSE IF ~c.reapply THEN "re-application-differs"
       ELSE "ok"

JudgeSim(rec) ==
    LET cl == [q \in 1..Len(rec.calls) |-> CallClause(rec.calls[q])]
        bad == {q \in 1..Len(rec.calls) : cl[q] # "ok"}
    IN IF bad = {} THEN TRUE ELSE Fail(rec.id, rec.calls[SetMin(bad)].route \o ":" \o cl[SetMin(bad)])

Verdict == lvl = 2 => JudgeSim(T[k])
=============================================================================
