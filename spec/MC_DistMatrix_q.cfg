\* complete block space for n <= 6
SPECIFICATION Spec
CONSTANT MaxN = 6
INVARIANT LengthsAgree
INVARIANT SerialAgrees
INVARIANT OmpAgrees
INVARIANT OmpCovers
INVARIANT CondensedAgrees
CHECK_DEADLOCK FALSE
