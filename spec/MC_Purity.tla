-------------------------------- MODULE MC_Purity --------------------------------
(***************************************************************************)
(* Act M: a small model of a library whose routines may or may not copy    *)
(* their inputs before working on them.  With CopiesInputs = TRUE every    *)
(* reachable history is pure; with FALSE (a routine that normalises its    *)
(* argument in place) TLC finds the impure history - the sensitivity       *)
(* self-test of the predicate that judges the recorded histories.          *)
(***************************************************************************)
EXTENDS Purity
CONSTANTS Objs, Contents, MaxCalls, CopiesInputs
VARIABLES store, h
vars == <<store, h>>
Init == store \in [Objs -> Contents] /\ h = <<>>
\* routine "norm-dist": distance between normalised arguments; normalisation maps content c to 0
Call(a, b) ==
    /\ Len(h) < MaxCalls
    /\ LET after == IF CopiesInputs THEN store ELSE [store EXCEPT ![a] = 0]
       IN /\ h' = Append(h, [routine |-> "norm-dist", before |-> store, after |-> after,
                             token |-> <<"norm-dist", store[a], store[b]>>,
                             result |-> Abs(store[a] - store[b])])
          /\ store' = after
Next == \E a, b \in Objs : Call(a, b)
Spec == Init /\ [][Next]_vars
Pure == HistoryPure(h)
StoreNeverChanges == [][store' = store]_vars
=============================================================================
