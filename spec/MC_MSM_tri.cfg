SPECIFICATION Spec
CONSTANTS
  MaxLen = 3
  Lo = 0
  Hi = 2
  Costs = {1, 2}
  Triples = TRUE
INVARIANT Triangle
CHECK_DEADLOCK FALSE
