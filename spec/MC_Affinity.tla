------------------------------ MODULE MC_Affinity ------------------------------
(***************************************************************************)
(* Act M for local concurrences: the affinity matrix of every case of the  *)
(* slice, and the match iterator as a state machine over the set of        *)
(* consumed cells: Yield takes a maximal unconsumed positive cell and      *)
(* walks back along maximal positive unconsumed predecessors (as           *)
(* LocalConcurrences.best_path does on the negativized matrix); Restart    *)
(* forgets the consumed cells.  Invariant: the history of yielded paths    *)
(* satisfies HistoryOK; the exact regime really is exact.                  *)
(***************************************************************************)
EXTENDS Affinity
CONSTANTS MaxLen, Vals, Windows, PensP, Tau2s, DeltasP, DFs, MaxYields, PsiBegins
VARIABLES c, M, consumed, matches, stage
PsiBeginsQ == {<<0, 0>>, <<1, 0>>, <<1, 2>>}      \* (a cfg file cannot write tuples)
vars == <<c, M, consumed, matches, stage>>

NoCase == [s1 |-> <<>>, s2 |-> <<>>, w |-> 0, pen |-> 0, tau2 |-> 1, delta |-> 0, dfnum |-> 1, dfden |-> 1,
           triu |-> FALSE, psi |-> <<0, 0, 0, 0>>]
Ser(n) == [1..n -> {<<v>> : v \in Vals}]
Init == c = NoCase /\ M = <<>> /\ consumed = {} /\ matches = <<>> /\ stage = 0
Pick == /\ stage = 0
        /\ \E a \in 1..MaxLen, b \in 1..MaxLen, w \in Windows, p \in PensP, t \in Tau2s, dl \in DeltasP, df \in DFs,
              tr \in BOOLEAN, pb \in PsiBegins : \E x \in Ser(a), y \in Ser(b) :
             \* pb = <<relaxation at the begin of s1, of s2>>, never beyond the series
             LET cc == [s1 |-> x, s2 |-> y, w |-> w, pen |-> p * (SC \div 4), tau2 |-> t, delta |-> 0 - dl * SC,
                        dfnum |-> 1, dfden |-> df, triu |-> tr, psi |-> <<pb[1], 0, pb[2], 0>>]
             IN pb[1] <= a /\ pb[2] <= b /\ c' = cc /\ M' = AffMatrix(cc)
        /\ stage' = 1 /\ UNCHANGED <<consumed, matches>>

Val(i, j) == IF i < 0 \/ j < 0 \/ <<i, j>> \in consumed THEN NegInf ELSE M[i + 2][j + 2]
Positive == {ij \in (0..(AL1(c) - 1)) \X (0..(AL2(c) - 1)) : Val(ij[1], ij[2]) > 0}
RECURSIVE Walk(_, _, _)
Walk(i, j, acc) ==      \* acc: path so far, from the end backwards
    LET d == Val(i - 1, j - 1) u == Val(i - 1, j) l == Val(i, j - 1)
        best == Max3(d, u, l)
    IN IF best <= 0 THEN acc
       ELSE IF d = best THEN Walk(i - 1, j - 1, <<<<i - 1, j - 1>>>> \o acc)
       ELSE IF u = best THEN Walk(i - 1, j, <<<<i - 1, j>>>> \o acc)
       ELSE Walk(i, j - 1, <<<<i, j - 1>>>> \o acc)
Yield(restart) ==
    /\ stage = 1 /\ Len(matches) < MaxYields
    /\ LET cons == IF restart THEN {} ELSE consumed
       IN \E ij \in {x \in (0..(AL1(c) - 1)) \X (0..(AL2(c) - 1)) : x \notin cons /\ M[x[1] + 2][x[2] + 2] > 0} :
            /\ \A y \in (0..(AL1(c) - 1)) \X (0..(AL2(c) - 1)) :
                   (y \notin cons) => M[y[1] + 2][y[2] + 2] <= M[ij[1] + 2][ij[2] + 2]
            /\ LET p == IF restart
                        THEN LET oldc == consumed IN Walk(ij[1], ij[2], <<ij>>)   \* evaluated with consumed' below
                        ELSE Walk(ij[1], ij[2], <<ij>>)
               IN /\ ~restart      \* restart is modelled by Restart followed by Yield(FALSE)
                  /\ matches' = Append(matches, [path |-> p, restart |-> (Len(matches) > 0 /\ matches[Len(matches)].restartnext)
                                                 , restartnext |-> FALSE, fresh |-> (consumed = {}), minlen |-> 1])
                  /\ consumed' = consumed \cup CellsOf(p)
    /\ UNCHANGED <<c, M, stage>>
Restart == /\ stage = 1 /\ consumed # {} /\ Len(matches) >= 1 /\ ~matches[Len(matches)].restartnext
           /\ consumed' = {}
           /\ matches' = [matches EXCEPT ![Len(matches)].restartnext = TRUE]
           /\ UNCHANGED <<c, M, stage>>
Next == Pick \/ Yield(FALSE) \/ Restart
Spec == Init /\ [][Next]_vars

InBandNonNegative ==
    stage = 1 => \A i \in 0..(AL1(c) - 1), j \in 0..(AL2(c) - 1) :
                    IF AInBand(c, i, j) THEN M[i + 2][j + 2] >= 0 ELSE IsNegInf(M[i + 2][j + 2])
HistoryInvariant == stage = 1 => HistoryOK(c, M, matches)
=============================================================================
