\* all interleavings, every block, n <= 3, two threads, self-test: c shared must be refuted
SPECIFICATION Spec
CONSTANTS
  MaxN = 3
  NThreads = 2
  SharedVars = {"c"}
INVARIANT InBounds
INVARIANT NoDoubleWrite
INVARIANT SerialEquivalent
CHECK_DEADLOCK FALSE
