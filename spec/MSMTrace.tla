-------------------------------- MODULE MSMTrace --------------------------------
(* Act T for the MSM extension (X01): recorded results of msm.distance against the programme of MSM.tla *)
EXTENDS MSM, Json, IOUtils
T == JsonDeserialize(IOEnv.TRACE_FILE)
N == Len(T)
ChunkSize == 50
NChunks == (N + ChunkSize - 1) \div ChunkSize
VARIABLES lvl, ch, k
vars == <<lvl, ch, k>>
Init == lvl = 0 /\ ch = 0 /\ k = 0
Next == \/ /\ lvl = 0 /\ \E q \in 1..NChunks : ch' = q
           /\ lvl' = 1 /\ k' = 0
        \/ /\ lvl = 1 /\ \E q \in ((ch - 1) * ChunkSize + 1)..Min2(ch * ChunkSize, N) : k' = q
           /\ lvl' = 2 /\ ch' = ch
Spec == Init /\ [][Next]_vars

\* values are in the scaled unit of the record (series values and the split/merge cost times S)
JudgeMSM(rec) ==
    LET want == MSMDist(rec.x, rec.y, rec.smc)
        bad == {q \in 1..Len(rec.obs) : rec.obs[q].val # want}
    IN IF bad = {} THEN TRUE ELSE Fail(rec.id, rec.obs[SetMin(bad)].route)

Verdict == lvl = 2 => JudgeMSM(T[k])
=============================================================================
