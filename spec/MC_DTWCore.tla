----------------------------- MODULE MC_DTWCore -----------------------------
(***************************************************************************)
(* Act M for the DTW definition: TLC enumerates every case of a slice and  *)
(* checks that the cell-wise recurrence (the oracle used for conformance)  *)
(* equals the minimum over explicitly enumerated admissible paths, that    *)
(* the enumeration produces exactly the admissible paths, and the laws     *)
(* and bounds that other properties rely on.                               *)
(***************************************************************************)
EXTENDS DTWCore

CONSTANTS MaxLen,      \* series lengths 1..MaxLen
          Vals,        \* scaled value alphabet
          Inners,      \* subset of {"sq","eu","cu"}
          Windows,     \* 0 = none
          Pens, MaxSteps, MaxDists,
          MLDs,        \* max_length_diff values; 99 stands for none (cfg files cannot hold -1)
          PsiMax,      \* psi entries range over 0..Min(PsiMax, len)
          TinyLen      \* up to this length the filter definition of paths is checked too

VARIABLES stage, c

vars == <<stage, c>>

NoCase == [s1 |-> <<>>, s2 |-> <<>>, inner |-> "sq", w |-> 0, pen |-> 0, ms |-> 0, md |-> 0,
           mld |-> -1, psi |-> <<0, 0, 0, 0>>]

MLDSet == {IF x = 99 THEN -1 ELSE x : x \in MLDs}

Init == stage = 0 /\ c = NoCase

\* stage 0 -> 1: choose the shape (lengths are carried as placeholder series of zeros)
Zeros(n) == [k \in 1..n |-> <<0>>]
PickShape ==
    /\ stage = 0
    /\ \E l1 \in 1..MaxLen, l2 \in 1..MaxLen, inn \in Inners, w \in Windows, pen \in Pens,
          ms \in MaxSteps, md \in MaxDists, mld \in MLDSet :
       \E p1b \in 0..Min2(PsiMax, l1), p1e \in 0..Min2(PsiMax, l1),
          p2b \in 0..Min2(PsiMax, l2), p2e \in 0..Min2(PsiMax, l2) :
         /\ c' = [s1 |-> Zeros(l1), s2 |-> Zeros(l2), inner |-> inn, w |-> w, pen |-> pen,
                  ms |-> ms, md |-> md, mld |-> mld, psi |-> <<p1b, p1e, p2b, p2e>>]
         /\ ~DegeneratePsi(c')
    /\ stage' = 1

\* stage 1 -> 2: choose the values
Series(n) == [1..n -> {<<v>> : v \in Vals}]
PickValues ==
    /\ stage = 1
    /\ \E a \in Series(L1(c)), b \in Series(L2(c)) : c' = [c EXCEPT !.s1 = a, !.s2 = b]
    /\ stage' = 2

Next == PickShape \/ PickValues
Spec == Init /\ [][Next]_vars

----------------------------------------------------------------------------
Cells(cc) == (0..(L1(cc) - 1)) \X (0..(L2(cc) - 1))

\* T1: the recurrence is cell-wise the minimum over all admissible partial paths
CellwiseOptimal ==
    stage = 2 =>
      LET M == OptMatrix(c)
      IN \A ij \in Cells(c) :
            OptTo(M, ij[1], ij[2]) =
              SetMinOr({PathCost(c, p) : p \in PathsTo(c, ij[1], ij[2])}, Inf)

\* T2: the recurrence's distance is the minimum over all admissible complete paths
DistanceOptimal == stage = 2 => Opt(c) = OptPaths(c)

\* T3: every enumerated path is admissible (and, on tiny cases, nothing admissible is missed)
AllSeqs(S, n) == UNION {[1..k -> S] : k \in 1..n}
EnumerationSound ==
    stage = 2 =>
      /\ \A p \in AllPaths(c) : Admissible(c, p) /\ Len(p) <= L1(c) + L2(c) - 1
      /\ (L1(c) + L2(c) <= TinyLen) =>
            AllPaths(c) = {p \in AllSeqs(Cells(c), L1(c) + L2(c) - 1) : Admissible(c, p)}

\* Bounds (C09): LB_Keogh <= DTW (no psi) and penalty-free / equal-length DTW <= ED
NoPsi(cc) == cc.psi = <<0, 0, 0, 0>>
Sandwich ==
    (stage = 2 /\ NoPsi(c) /\ c.ms = 0 /\ c.mld = -1 /\ c.inner # "cu") =>
      /\ LBKeogh(c) <= Opt(c)
      /\ (c.pen = 0 \/ L1(c) = L2(c)) => Opt(c) <= ED(c)
      /\ (c.w = 1 /\ L1(c) = L2(c)) => Opt(c) = ED(c)

\* Laws (C10)
Swap(cc) == [cc EXCEPT !.s1 = cc.s2, !.s2 = cc.s1,
                       !.psi = <<cc.psi[3], cc.psi[4], cc.psi[1], cc.psi[2]>>]
\* the band predicate is the one of Layout.tla, whose symmetry LayoutProofs.tla proves for all sizes
LY == INSTANCE Layout
LayoutBandAgrees ==
    stage >= 1 => \A i \in 0..(L1(c) - 1), j \in 0..(L2(c) - 1) :
                     /\ InBand(c, i, j) <=> LY!InBandL(i, j, L1(c), L2(c), Win(c))
                     /\ StartOK(c, i, j) <=> LY!StartOKL(i, j, c.psi[1], c.psi[3])
                     /\ EndOK(c, i, j) <=> LY!EndOKL(i, j, L1(c), L2(c), c.psi[2], c.psi[4])
                     /\ \A i2 \in 0..(L1(c) - 1), j2 \in 0..(L2(c) - 1) :
                           IsStep(<<i, j>>, <<i2, j2>>) <=> LY!IsStepL(i, j, i2, j2)

Laws ==
    stage = 2 =>
      /\ Opt(c) >= 0
      /\ Opt(c) = Opt(Swap(c))
      /\ (c.s1 = c.s2) => Opt(c) = 0
      /\ (c.w # 0) => Opt([c EXCEPT !.w = c.w + 1]) <= Opt(c)
      /\ Opt(c) <= Opt([c EXCEPT !.pen = c.pen + 1])
      /\ (c.ms # 0) => Opt([c EXCEPT !.ms = c.ms + 1]) <= Opt(c)
      /\ \A k \in 1..4 :
            LET len == IF k <= 2 THEN L1(c) ELSE L2(c)
                c2 == [c EXCEPT !.psi[k] = c.psi[k] + 1]
            IN (c.psi[k] < len /\ ~DegeneratePsi(c2)) => Opt(c2) <= Opt(c)
=============================================================================
