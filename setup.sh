#!/bin/sh
# Offline setup: parse all specifications with SANY, build /repo's extensions and the native library.
set -e
cd "$(dirname "$0")"
export PYTHONHASHSEED=0
/venv/bin/python -u harness/setup_all.py
